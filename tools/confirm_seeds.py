#!/venv/bin/python
"""Developer tool: confirm sub-agent seeds (demo passes on clean tree / fails with the change, repository suite
still green with the change) and record which checks catch them.  Writes /verif/seeded/<id>/..."""
import glob, json, os, re, shutil, subprocess, sys
W = "/tmp/mutwt"
def sh(cmd, **kw):
    return subprocess.run(cmd, shell=True, stdout=subprocess.PIPE, stderr=subprocess.STDOUT, text=True, **kw)
head = sh("git -C /repo rev-parse HEAD").stdout.strip()
if not os.path.isdir(W):
    sh(f"git -C /repo worktree add --detach {W} HEAD")
sh(f"git -C {W} checkout -q --detach {head}; git -C {W} checkout -- .; git -C {W} clean -fdq")
OUTDIR = os.environ.get("SEED_OUTDIR", "_out")
OFFSET = int(os.environ.get("SEED_OFFSET", "0"))
only = sys.argv[1:]
results = []
for diff in sorted(glob.glob(f"/tmp/wt/C*/{OUTDIR}/mut*.diff")):
    prop = diff.split("/")[3]; n = re.search(r"mut(\d+)", diff).group(1)
    sid = f"{prop}-{int(n) + OFFSET}"
    if only and sid not in only and prop not in only: continue
    demo = diff.replace(f"mut{n}.diff", f"demo{n}.py"); notes = diff.replace(f"mut{n}.diff", f"notes{n}.md")
    r = {"id": sid, "property": prop}
    sh(f"git -C {W} checkout -- .; git -C {W} clean -fdq")
    env = f"cd {W} && PYTHONPATH={W} HOME=/tmp/seedhome XDG_CONFIG_HOME=/tmp/seedhome/c XDG_DATA_HOME=/tmp/seedhome/d"
    c = sh(f"{env} timeout 300 /venv/bin/python {demo}"); r["demo_clean_rc"] = c.returncode
    a = sh(f"git -C {W} apply {diff}"); r["applies"] = a.returncode == 0
    if not r["applies"]:
        r["apply_err"] = a.stdout[-300:]
    else:
        m = sh(f"{env} timeout 300 /venv/bin/python {demo}"); r["demo_mutant_rc"] = m.returncode; r["demo_mutant_tail"] = m.stdout[-400:]
        t = sh(f"cd {W} && PYTHONPATH={W} /venv/bin/python -m pytest -q -p no:cacheprovider -n 16 tests 2>&1 | tail -1"); r["suite"] = t.stdout.strip()[-80:]
        k = sh(f"cd /verif && VF_REPO={W} ./check {prop} quick"); r["check_rc"] = k.returncode
        r["check_keys"] = re.findall(r"key=(\S+)", k.stdout)[:6]
    sh(f"git -C {W} checkout -- .; git -C {W} clean -fdq"); shutil.rmtree("/tmp/seedhome", ignore_errors=True)
    ok = r.get("demo_clean_rc") == 0 and r.get("demo_mutant_rc") == 1 and "3592 passed" in r.get("suite", "")
    r["confirmed"] = ok
    print(json.dumps(r), flush=True)
    if ok:
        d = f"/verif/seeded/{sid}"; os.makedirs(d, exist_ok=True)
        shutil.copy(diff, f"{d}/patch.diff"); shutil.copy(demo, f"{d}/demo.py")
        if os.path.exists(notes): shutil.copy(notes, f"{d}/notes.md")
        meta = {"id": sid, "property": prop, "source": "independent sub-agent given only the property text and a scratch worktree",
                "needs_to_manifest": open(notes).read()[:1500] if os.path.exists(notes) else "",
                "confirmed": {"base_commit": head, "demo_on_clean_tree_exit": 0, "demo_with_change_exit": 1, "repository_suite_with_change": r["suite"],
                              "commands": [f"PYTHONPATH=<tree> /venv/bin/python demo.py", "python -m pytest -q -n 16 tests", f"VF_REPO=<tree with patch> ./check {prop} quick"]},
                "caught_by": {prop + " quick": {"exit": r["check_rc"], "violation_keys": r["check_keys"]}}}
        json.dump(meta, open(f"{d}/meta.json", "w"), indent=1)
