#!/venv/bin/python
"""Developer tool: print the seeded-change catch matrix (markdown) from seeded/*/meta.json."""
import glob, json, os, re
HERE = os.path.dirname(os.path.dirname(os.path.abspath(__file__)))
rows = []
for f in sorted(glob.glob(os.path.join(HERE, "seeded", "*", "meta.json")), key=lambda p: (p.split("/")[-2].split("-")[0], int(p.split("/")[-2].split("-")[1]))):
    m = json.load(open(f))
    notes = m.get("needs_to_manifest", "")
    first = re.sub(r"[#*`]", "", notes.strip().splitlines()[0] if notes.strip() else "")[:110]
    cb = m["caught_by"]
    k = list(cb.values())[0]
    rows.append(f"| {m['id']} | {first} | {list(cb)[0]}: exit {k['exit']} | {', '.join(k['violation_keys'][:2])[:120]} |")
print("| seed | change (first line of the seeder's notes) | check | violation keys (first two) |")
print("|---|---|---|---|")
print("\n".join(rows))
