#!/bin/sh
# developer helper: run a check against a scratch worktree of /repo HEAD with a patch applied
# usage: tools/trymut.sh <patch.diff> <PROP> [tier]
set -e
W=${MUTWT:-/tmp/mutwt}
if [ ! -d $W ]; then git -C /repo worktree add --detach $W HEAD >/dev/null 2>&1; fi
git -C $W checkout -q --detach $(git -C /repo rev-parse HEAD) 2>/dev/null
git -C $W checkout -- . ; git -C $W clean -fdq
git -C $W apply "$1"
cd /verif; VF_REPO=$W ./check "$2" "${3:-quick}" | tail -${TAIL:-6}; rc=$?
git -C $W checkout -- . ; git -C $W clean -fdq
exit 0
