#!/venv/bin/python
"""Regenerate known_findings.json (developer tool; never run by a check).

Each row: property, mechanism key (as computed by the check's classifier),
status known|fixed, fix commit (subject looked up in /repo), what failed.
"""
import json, os, subprocess
HERE = os.path.dirname(os.path.dirname(os.path.abspath(__file__)))
log = subprocess.run(["git", "-C", "/repo", "log", "--format=%h\t%s", "fdd71e3..HEAD"], capture_output=True, text=True).stdout.splitlines()
bysubj = {l.split("\t")[1]: l.split("\t")[0] for l in log}
def c(prefix):
    m = [h for s, h in bysubj.items() if s.startswith("fix: " + prefix)]
    assert len(m) == 1, (prefix, m)
    return m[0]
ROWS = [
 # property, key, status, commit-subject-prefix, what
 ("C02", "cdata/two-sections-one-line", "fixed", "parse adjacent and multi-line CDATA", "two CDATA-wrapped elements on one line were merged by the greedy group (or raised IndexError)"),
 ("C02", "cdata/line-break-inside", "fixed", "parse adjacent and multi-line CDATA", "CDATA data containing a line break was silently dropped"),
 ("C08", "accepted/truncated", "fixed", "reject improperly nested", "a body cut off before its final end tag parsed to a tree (close() with elements still open)"),
 ("C08", "accepted/end-tag-mismatch", "fixed", "reject improperly nested", "a misspelled / foreign / missing aggregate end tag was accepted (ET.TreeBuilder.end() ignores the tag)"),
 ("C05", "v1/non-ascii-body-on-header-line", "fixed", "don't choke on non-ASCII body bytes", "UnicodeDecodeError when body bytes share a line with header text (CR or no separators, v2 on one line)"),
 ("C05", "v1/glued-body-loses-first-char", "fixed", "header end offset off by one", "body directly after NEWFILEUID lost its first '<' for multi-line v1 headers"),
 ("C05", "v2/single-quoted-ofx-declaration", "fixed", "accept single-quoted attributes", "single-quoted <?OFX ...?> declaration rejected as malformed"),
 ("C01", "unclosed-sgml/raw-markup-in-data", "fixed", "escape markup characters", "& and < written raw in the end-tag-less SGML form; data truncated / spurious tags on re-parse (also C06, C11)"),
 ("C01", "unclosed-sgml/childless-aggregate", "fixed", "close childless aggregates", "childless aggregate written as a lone start tag in the end-tag-less form; following siblings re-parented"),
 ("C06", "tax1099/acctnum-dropped", "fixed", "request_tax1099() silently dropped", "request_tax1099(acctnum=...) never put ACCTNUM in the request"),
 ("C09", "read/offset-minutes-separator-any-char", "fixed", "unescaped '.' in the GMT offset", "[-5:30] (zone name '30') read as -5:30; [-5x30] accepted"),
 ("C09", "read/negative-sub-hour-offset-sign-lost", "fixed", "sign of GMT offsets between", "[-0.30] read as +0:30 (int('-0') == 0); the library writes that form itself"),
 ("C10", "decimal/scale0-quantum", "fixed", "Decimal(scale=0) quantized", "Decimal(scale=0) built quantum 0.1"),
 ("C10", "decimal/non-finite-accepted", "fixed", "NaN and Infinity accepted", "NaN / sNaN / Infinity accepted on read and written out (also C11)"),
 ("C11", "decimal/exponent-notation-written", "fixed", "decimals written in exponent notation", "Decimal('1E+2') written as 1E+2, Decimal('1E-7') as 1E-7"),
 ("C04", "mutex-not-in-force/origcurrency-mixin-shadowed", "fixed", "CURRENCY/ORIGCURRENCY exclusivity", "9 classes accepted CURRENCY together with ORIGCURRENCY (Aggregate.optionalMutexes shadows the mixin's); also C13"),
 ("C13", "mutex-never-fires/names-repeated-child", "fixed", "exclusivity groups naming a repeated child", "TAX1099MISC_V100 / TAX1099INT_V100 / TAX1099DIV_V100 groups naming a list child could never fire; also C04"),
 ("C13", "child-unreachable/BILLPAYMSGSRSV1.pmtmailtrns", "fixed", "BILLPAYMSGSRSV1 could not contain", "attribute name != lower-cased member class; PMTMAILTRNRS refused as member, skipped as unknown tag on parse"),
 ("C16", "miss-raises-KeyError", "fixed", "attribute misses on aggregates raised KeyError", "hasattr/getattr-default/copy/deepcopy/pickle raised KeyError on aggregates with repeated children"),
 ("C16", "shortcut/BANKMSGSRQV1.statements-omits-stmtendrq", "fixed", "BANKMSGSRQV1.statements omitted", "closing-statement requests never returned by BANKMSGSRQV1.statements"),
 ("C04", "duplicate-accepted/groom-renames-first-only", "fixed", "duplicate FROM / YIELD", "second <FROM> in MAIL / <YIELD> in MFINFO, STOCKINFO accepted and dropped"),
 ("C01", "list-runs/non-adjacent-list-attributes", "fixed", "list members written out of sequence", "TAX1099INT_V100 with ORIGSTATE member and TAXEXEMPTINT serialized to a tree its own reader rejects; also C13"),
 ("C20", "cusip/checksum-raises/special-char/ValueError", "fixed", "cusip_checksum() crashed", "cusip_checksum raised ValueError for any base containing * @ #"),
 ("C15", "crash/cache-left-truncated", "fixed", "write the FI profile cache atomically", "crash between open() and end of write() left an empty/truncated cache; every later request for that FI failed"),
 ("C15", "concurrent/mixed-content", "fixed", "write the FI profile cache atomically", "two concurrent writers with different bodies could leave a mixture"),
 ("C18", "write/percent-in-value", "fixed", "'%' in a config value", "'%' in a value (URL) made --write / the next read die in configparser interpolation"),
 ("C18", "write/stale-override-when-new-value-is-default", "fixed", "ofxget --write left a stale setting", "--version 102 -w; --version 203 -w; next run used 102"),
 ("C19", "all/no-active-bank-or-invest-account", "fixed", "'ofxget stmt --all' died", "stmt --all raised ValueError('{label} is empty') when all bank (or investment) accounts are inactive"),
 ("C04", "list-member-on-class-without-lists/kwargs", "fixed", "aggregates that declare no repeated elements", "any str positional argument was admitted as a list member by classes that declare no repeated element (294 classes); the instance then violates 'permitted list member types'"),
 ("C11", "to_etree/DateTime/not YYYYMMDDHHMMSS.XXX[offset:name]", "fixed", "date-times before year 1000", "years 1..999 written with fewer than four digits (strftime %Y), e.g. 9990101000000.000[+0:UTC]"),
 ("C11", "to_etree/Integer/not [+-]digits", "fixed", "a bool stored in an Integer element", "Integer element holding a bool written as 'True'/'False'"),
 ("C18", "history/run-fails/write/FileNotFoundError", "fixed", "FI profile could not be cached when ORG or FID", "ofxget stmt for the bundled FI 'commencement' (ORG 'Cavion/Phoenix') - or any ORG/FID containing '/' - died with FileNotFoundError: the profile cache file name embedded ORG/FID verbatim (also C15: seq/valid-answer-rejected with a hostile ORG)"),
 ("C15", "wrong-server/different-org-fid", "fixed", "FI profile cache shared by different ORG/FID pairs", "ORG 'a-b'/FID 'c' and ORG 'a'/FID 'b-c' (same URL) shared one cache file: one FI's DTPROFUP and profile were used for the other"),
 ("C19", "all/inactive-account-requested", "fixed", "--all requested configured accounts", "stmt/stmtend --all with accounts of some type in ofxget.cfg and no ACTIVE account of that type in the ACCTINFO response requested the configured ones - incl. accounts the server had just reported as not ACTIVE (also all/account-extra-or-duplicated)"),
 ("C10", "Integer/over-limit-accepted-on-read", "fixed", "negative integers with more digits", "Integer(n) accepted negative values with more than n digits (-1000000 at Integer(3)) on construction, reading and writing: enforce_length compared value >= 10**n (also C04 instance-exists-violating/integer-digits, integer-over-limit/kwargs/...=int)"),
 ("C15", "seq/cache-regressed", "fixed", "profile replies were checked with assert", "under python -O (one shard in eight runs so) the asserts of request_profile() vanish: an older profile, or a reply with an error status, was accepted and written over the cached profile (also seq/returned-not-the-newest, seq/asked-with-wrong-date, seq/cache-not-a-whole-profile)"),
 ("C20", "sedol/corrupt-accepted/alnum", "fixed", "sedol2isin validated its argument with assert", "under python -O sedol2isin() converted a SEDOL whose check digit or length is wrong (also sedol/corrupt-accepted/digits)"),
 ("C04", "exactly-one-group-none-accepted/kwargs", "fixed", "an empty string satisfied an exactly-one group", "a member of an exactly-one group passed as '' (or read from an empty element) counted as present and was then stored as None: INTRASYNCRQ(token='', ...) existed with none of token/tokenonly/refresh (19 classes; pointed out by a seeding sub-agent on the unchanged tree)"),
 ("C04", "empty-list-element-accepted/kwargs", "fixed", "None and '' were accepted as members of an element list", "TAX1099RQ(None, '2020'), PAYEERQ('') ... held a None member and wrote an empty element (12 element-list classes; pointed out by a seeding sub-agent)"),
 ("C04", "out-of-order-accepted/etree", "fixed", "a child could follow list members it should precede", "TAX1099INT_V100 accepted ORIGSTATE, FORINCOME, TAXEXEMPTINT: after an exempted list member the sequence position fell back to the lower index (pointed out by a seeding sub-agent)"),
 ("C09", "reject/accepted/length-trailing-newline", "fixed", "date-time texts with a trailing line break", "DateTime/Time texts with one trailing line break ('20111117\\n': wrong length) or with non-ASCII digits in the offset minutes ('[+5.\u0663\u0660]') were accepted: '$' anchor and \\d (also reject/accepted/non-ascii-digit; reported by seeding sub-agents on the unchanged tree)"),
 ("C12", "corrupt/v1/accepted/VERSION", "fixed", "header numbers with leading zeros", "VERSION:0102 / OFXHEADER:0100 (over-long) were read as 102 / 100, and numbers in non-ASCII digits were accepted by OFXHeaderV1/V2.parse (also corrupt/v2/accepted/VERSION, corrupt/*/accepted/OFXHEADER, corrupt/OFXHeaderV*/accepted/*-non-ascii-digits; reported by a seeding sub-agent)"),
 ("C04", "out-of-order-accepted/etree/TAX1099INT_V100.origstate,forincome", "fixed", "list members of different runs could interleave", "members of the later run of repeated children before members of the earlier run (ORIGSTATE, FORINCOME), or an earlier-run member after the plain child between the runs, were accepted (reported by a seeding sub-agent after 8f6fa53)"),
 ("C18", "persist/checking/not-what-was-saved", "fixed", "--all --write left account lists", "'stmt --all --write' left the saved account list of a type of which the server lists no ACTIVE account in ofxget.cfg: the next run without --all requested those accounts again (reported by a seeding sub-agent; also persist/<other list>/not-what-was-saved)"),
 ("C10", "Decimal/inverse-broken", "fixed", "fixed-scale decimals beyond 28 digits", "a fixed-scale Decimal value with more than 28 digits was accepted and written, but reading its text raised InvalidOperation (quantize under the thread's default context); reported by a seeding sub-agent on the unchanged tree"),
 ("C08", "accepted/second-root", "fixed", "a second top-level element was only refused by the C implementation", "with the pure-Python xml.etree (no _elementtree accelerator; one shard in eight runs so) a body with a second top-level element returned the first element's tree; reported by a seeding sub-agent"),
 ("C04", "sonrq-credentials-rule-not-in-force/kwargs/SONRQ.none", "fixed", "SONRQ checked its credentials rule with assert", "under python -O SONRQ accepted neither or both of USERID+USERPASS / USERKEY (the rule was a pair of asserts inside try/except AssertionError); reported by a seeding sub-agent"),
 ("C01", "constructor-rejects-valid-candidate/CONTRIBSECURITY", "fixed", "class rules counted an argument passed as None", "CONTRIBSECURITY / EXTDPMT / TAX1099R_V100 tested their own rules on the KEYS of kwargs: CONTRIBSECURITY(secid=..., pretaxcontribpct=None) and EXTDPMT(extdpmtdsc=None) were built, written, and refused when read back; a source passed as None beside one of the other kind was refused as 'mixed' (reported by a seeding sub-agent on the unchanged tree; C01 instances built with explicit keyword=None)"),
 ("C01", "constructor-rejects-valid-candidate/OFX", "fixed", "OFX counted a message set passed as None", "OFX(signonmsgsrsv1=..., bankmsgsrqv1=None) refused as mixing requests and responses"),
 ("C02", "cdata/other", "fixed", "whitespace between a tag and a CDATA section", "'<MEMO> <![CDATA[x]]></MEMO>' parsed as an EMPTY element (data dropped, nothing raised); blanks between ']]>' and the end tag were refused (also cdata/line-break-inside, cdata/two-sections-one-line and their /raises-ParseError variants; the layout had been left out of the renderer as unspecified - reported by a seeding sub-agent)"),
 ("C08", "accepted/truncated", "fixed", "an unterminated CDATA section went unnoticed", "a valid body whose last data is a CDATA section quoting the end tags that follow it, cut off inside that section, was returned as a complete tree: re.finditer() skipped the unterminated section and matched the quoted end tags (reported by a seeding sub-agent)"),
 ("C15", "wrong-server/different-org-fid", "fixed", "profile cache file of a client without ORG/FID", "a client without ORG/FID and one whose ORG/FID are the text 'None' (same URL) shared one cache file (str(None)); reported by a seeding sub-agent"),
 ("C18", "persist/version/not-what-was-saved", "fixed", "ofxget tax1099 ignored --write", "'ofxget tax1099 ... --write' (and --savepass) saved nothing: the next run without the options used the old values (also persist/<any option>/not-what-was-saved after a tax1099 run; reported by a seeding sub-agent)"),
 ("C02", "plain/raises-ParseError", "fixed", "XML empty-element tags were read as the start", "an aggregate without children written as an XML empty-element tag (<MEMO/>, legal in OFX 2.x) opened an element 'MEMO/' that nothing closed: the document was refused (also C07: an unknown empty element spelled that way; reported by a seeding sub-agent)"),
 ("C20", "isin/valid-rejected/real-security", "fixed", "four numbering agencies were keyed by one letter", "NUMBERING_AGENCIES listed Hungary, Russia, Luxembourg and Australia under 'H', 'R', 'L', 'A': no HU/RU/LU/AU ISIN validated (AU000000BHP4 ...), isin_checksum() raised AssertionError for them (also isin/valid-rejected, isin/checksum-raises/AssertionError, isin/agency-key-is-no-prefix; reported by a seeding sub-agent; the check had taken 'known prefix' from the table under test)"),
 ("C09", "reject/accepted/offset-hours-junk", "fixed", "junk in the hours of a GMT offset", "'[5-3:EST]', '[+-:PST]', '[1-2:EST]' were read as the named zone's offset (the work-around for '[-:CST]' took any text int() refuses); reported by seeding sub-agents"),
 ("C09", "reject/accepted/offset-hours-out-of-range", "fixed", "the range of GMT offsets was checked with assert", "under python -O '[+15]', '[-13]', '[99]' and minutes beyond 59 were accepted (also reject/accepted/offset-minutes-out-of-range); reported by a seeding sub-agent"),
 ("C18", "persist/clientuid/not-what-was-saved", "fixed", "the default CLIENTUID wasn't in effect on the first run", "with a default CLIENTUID in the user's file and no section for the nickname yet, the first run signed on without CLIENTUID and the next one with it; reported by a seeding sub-agent"),
 ("C16", "list-name/hasattr-raises-KeyError", "fixed", "reading the name of a repeated child on an instance raised KeyError", "hasattr(BANKMSGSRSV1(), 'stmttrnrs') / getattr(..., None) raised KeyError for every name under which a class declares repeated children; reported by a seeding sub-agent"),
 ("C17", "input-mutated/result-depends-on-the-threads-arithmetic-context", "fixed", "reading a decimal with a comma depended on the calling thread", "in a thread whose decimal context does not trap InvalidOperation (decimal.ExtendedContext) '1,23' was refused as 'not a finite number'; reported by three seeding sub-agents"),
 ("C07", "text/xml/raises-ParseError", "fixed", "an empty CDATA section ran on to the end of the next one", "follow-up of d090e8c: '<FOO><![CDATA[]]></FOO>' (an unknown element with an empty CDATA section) became a ParseError, and had always swallowed everything up to the next ']]>'; reported by a seeding sub-agent, not generated by the checks"),
 ("C20", "sedol2isin/unknown-country-converted", "fixed", "sedol2isin checked the country code only through an assert", "under python -O sedol2isin('0111009', 'ZZ') returned 'ZZ0001110095' (an identifier no agency issues; validate_isin refuses it); reported by a seeding sub-agent"),
 ("C19", "all/account-extra-or-duplicated", "fixed", "ofxget --all requested an account twice", "an account the server lists as ACTIVE in two <ACCTINFO> aggregates was requested (and with --write saved) twice; reported by a seeding sub-agent"),
 ("C16", "shortcut/STMTENDTRNRS.statement/raises-AttributeError", "fixed", "STMTENDTRNRS lacked the 'statement' shortcut", "the bank closing-statement wrapper had no .statement although STMTTRNRS, CCSTMTTRNRS, INVSTMTTRNRS and CCSTMTENDTRNRS have; the check had skipped wrappers without the attribute; reported by seeding sub-agents"),
 ("C09", "write/aware-refused", "fixed", "an aware value whose tzinfo doesn't implement tzname()", "a datetime / time whose tzinfo gives an offset but does not implement tzname() (the base class raises NotImplementedError) could not be written (also time/write/aware-refused); reported by a seeding sub-agent"),
 ("C06", "caller-string-entity-decoded", "known", None, "a user id / password / account id / ORG / FID... that the CALLER passes and that contains an OFX entity sequence (e.g. password 'a&lt;b' or account 'x&amp;y') is entity-decoded by String.convert() when the request model is built, so the request carries 'a<b' / 'x&y' instead of what was supplied. Not repaired: the decode-on-assignment is by design shared between parsed text and Python values; a repair needs ~20 call sites in Client.py or an API change"),
 ("C15", "wrong-server/same-org-fid-different-url", "fixed", "FI profile cached from one server", "cache keyed by ORG-FID only: client of another URL sent A's DTPROFUP and used A's profile"),
]
out = {"_comment": "Genuine defects of csingley/ofxtools found by the /verif checks. status=fixed: repaired by the named 'fix:' commit in /repo; suppresses nothing. status=known: recorded, reported as KNOWN-FINDING and not failed. Keys are mechanism signatures computed by the check's classifier, never case hashes. Never written at run time.",
       "findings": []}
for prop, key, status, subj, what in ROWS:
    e = {"property": prop, "key": key, "status": status, "what": what}
    if status == "known":
        e["text"] = f"known: property={prop} {key} {what}"
    if status == "fixed":
        e["commit"] = c(subj)
        e["text"] = f"fixed: property={prop} {e['commit']} {what}"
    out["findings"].append(e)
json.dump(out, open(os.path.join(HERE, "known_findings.json"), "w"), indent=1)
print(len(out["findings"]), "entries")
