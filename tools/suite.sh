#!/bin/sh
# developer helper: run the repository's own suite in parallel, hooks off
cd /repo && /venv/bin/python -m pytest -q -p no:cacheprovider -n 16 "$@" 2>&1 | tail -4
