#!/venv/bin/python
"""Regenerate MANIFEST.json from the metadata in vf/checks/cXX.py (developer tool)."""
import importlib, json, os, subprocess, sys
HERE = os.path.dirname(os.path.dirname(os.path.abspath(__file__)))
sys.path.insert(0, HERE)
props = [json.loads(l) for l in open(os.path.join(HERE, "properties.jsonl"))]
NA = {}
na_path = os.path.join(HERE, "tools", "not_applicable.json")
if os.path.exists(na_path):
    NA = json.load(open(na_path))
checks, na = [], []
for p in props:
    pid = p["id"]
    path = os.path.join(HERE, "vf", "checks", pid.lower() + ".py")
    if not os.path.exists(path) or pid in NA:
        na.append({"property_id": pid, "reason": NA.get(pid, "check not built yet in this round (work in progress); no claim is made")})
        continue
    m = importlib.import_module("vf.checks." + pid.lower())
    checks.append({
        "property_id": pid,
        "quick_cmd": f"./check {pid} quick",
        "thorough_cmd": f"./check {pid} thorough",
        "evidence_file": f"/verif/evidence/{pid}.json",
        "replay_cmd_template": f"./check {pid} --replay {{path}}",
        "engine": "vf",
        "level_claimed": {"category": m.LEVEL, "text": m.LEVEL_TEXT, "design_ref": m.DESIGN_REF},
        "level_note": m.LEVEL_NOTE,
        "technique": m.TECHNIQUE,
    })
fixes = subprocess.run(["git", "-C", "/repo", "log", "--format=%h %s", "fdd71e3..HEAD"], capture_output=True, text=True).stdout.strip().splitlines()
manifest = {
    "version": 1,
    "setup_cmd": "/venv/bin/python -c \"import vf.run, vf.shard; print('vf ok')\"",
    "hooks": {
        "guard": "OFXTOOLS_VERIF",
        "enable": "No source hooks: every monitor is attached from the harness (attribute patching of the real classes, sys.addaudithook, sys.monitoring on the real code objects). Checks import ofxtools from /repo's working tree in fresh interpreters (PYTHONPYCACHEPREFIX points at an empty scratch directory, so nothing stale is used); OFXTOOLS_VERIF=1 is set for them but the repository does not read it.",
        "baseline_off_cmd": "cd /repo && env -u OFXTOOLS_VERIF /venv/bin/python -m pytest -ra -q -p no:cacheprovider --timeout=900 --continue-on-collection-errors",
        "source_commits": [],
        "add_only": True,
    },
    "engines": [{
        "name": "vf",
        "path": "/verif/vf",
        "serves_properties": [c["property_id"] for c in checks],
        "kind_free_text": "stdlib-only Python harness: sharded workload drivers, post-condition/differential monitors wrapped around the real ofxtools entry points, reference oracles, history recorders + offline checkers, audit-hook and sys.monitoring instrumentation, fault injectors",
    }],
    "checks": checks,
    "not_applicable": na,
    "notes": ("Exit 0 = held (KNOWN-FINDING lines possible), 1 = VIOLATION, 2 = INCONCLUSIVE (monitor observed too little / shard died). "
              "Repository defects repaired as separate 'fix:' commits (%d so far) are listed as 'fixed' in known_findings.json; they suppress nothing." % len(fixes)),
}
json.dump(manifest, open(os.path.join(HERE, "MANIFEST.json"), "w"), indent=1)
print("checks:", [c["property_id"] for c in checks], "n/a:", len(na))
