#!/bin/sh
# developer helper: run every check for several seeds on the unchanged tree; prints one line per run
# usage: tools/sweep.sh <tier> <seed>...
tier=$1; shift
cd "$(dirname "$0")/.."
for seed in "$@"; do
  for p in C01 C02 C03 C04 C05 C06 C07 C08 C09 C10 C11 C12 C13 C14 C15 C16 C17 C18 C19 C20; do
    out=$(VERIF_SEED=$seed ./check $p $tier 2>&1); rc=$?
    echo "seed=$seed $p rc=$rc $(echo "$out" | grep -E '^RESULT' | cut -c1-160)"
    if [ $rc -ne 0 ]; then echo "$out" | grep -E 'VIOLATION|INCONCLUSIVE|key=' | head -6 | cut -c1-400; fi
  done
done
