#!/venv/bin/python
"""Developer tool: how far above its required minimum did every monitor counter end up?  usage: tools/margins.py <evidence dir> <tier>"""
import importlib, json, os, sys
sys.path.insert(0, os.path.join(os.path.dirname(__file__), ".."))
d, tier = sys.argv[1], sys.argv[2]
for n in range(1, 21):
    p = f"C{n:02d}"
    try:
        e = json.load(open(os.path.join(d, p + ".json")))
    except Exception as ex:
        print(p, "no evidence", ex); continue
    if e.get("tier") != tier:
        print(p, "tier", e.get("tier")); continue
    mod = importlib.import_module(f"vf.checks.{p.lower()}")
    req = getattr(mod, "MIN_COUNTERS", {}).get(tier, {})
    c = e["coverage"]["counters"]
    rows = sorted(((c.get(k, 0) / v if v else 9e9), k, c.get(k, 0), v) for k, v in req.items())
    print(p, f"wall={e.get('wall_s')}", " ".join(f"{k}={got}/{need}({r:.1f}x)" for r, k, got, need in rows[:3]))
