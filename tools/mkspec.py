#!/venv/bin/python
"""Developer tool: freeze the element declarations of the reviewed tree into vf/oracles/spec_table.json.

The table is the checks' copy of what the OFX specification says about each data element (type, limit, scale,
enumeration tokens, required, order of children, exclusivity groups).  It is generated ONCE from a tree whose
models were reviewed against the spec and is then a fixed reference: the checks read it, never write it.
Run only after a deliberate, reviewed change of the models:  tools/mkspec.py [repo]
"""
import json, os, sys
HERE = os.path.dirname(os.path.dirname(os.path.abspath(__file__)))
sys.path.insert(0, HERE)
repo = sys.argv[1] if len(sys.argv) > 1 else "/repo"
sys.path.insert(0, repo)
from vf.oracles import ref_decl
from ofxtools import Types as T

def entry(d):
    kind = ref_decl.kind_of(d)
    e = {"kind": kind}
    if kind in ("sub", "listagg"):
        e["cls"] = d.__type__.__name__
        e["required"] = bool(getattr(d, "required", False))
        return e
    if kind == "unsupported":
        return e
    conv = d.converter if kind == "listelem" else d
    e["type"] = type(conv).__name__
    e["required"] = bool(getattr(conv, "required", False))
    if isinstance(conv, T.OneOf):
        e["tokens"] = [t for t in conv.valid]
    if isinstance(conv, (T.String, T.Integer)):
        e["length"] = conv.length
    if isinstance(conv, T.Decimal):
        e["scale"] = None if conv.scale is None else -conv.scale.as_tuple().exponent
    return e

table = {}
for name, cls in ref_decl.all_classes().items():
    opt, req = ref_decl.mutexes_in_force(cls)
    table[name] = {"children": [[k, entry(d)] for k, d in ref_decl.decl(cls).items()],
                   "at_most_one": [list(g) for g in opt], "exactly_one": [list(g) for g in req]}
import subprocess
head = subprocess.run(["git", "-C", repo, "rev-parse", "--short", "HEAD"], capture_output=True, text=True).stdout.strip()
out = {"_comment": "Frozen copy of the OFX element declarations (see tools/mkspec.py). Read-only reference for the checks.", "from_commit": head, "classes": table}
json.dump(out, open(os.path.join(HERE, "vf", "oracles", "spec_table.json"), "w"), indent=0, sort_keys=False)
print(len(table), "classes;", sum(len(c["children"]) for c in table.values()), "children;",
      sum(1 for c in table.values() for _, e in c["children"] if "tokens" in e), "enumerations")
