"""Strict reference tokenizer / tree builder for OFX message bodies.

Hand-written character scanner; shares no regular expression with
ofxtools/Parser.py.  Grammar accepted:

  body      := ws element ws
  element   := '<' NAME '>' ( data ['</' NAME '>'] | ws children '</' NAME '>' ) | '<' NAME [' '] '/>'   (empty aggregate)
  data      := CDATA-section | text-up-to-next-'<'   (non-blank after trimming)
  children  := ( element ws )*

A start tag followed by (non-blank) data is a data element: its end tag is
optional but must match if present.  A start tag not followed by data opens an
aggregate which must be closed by a matching end tag.  Everything else is an
error: stray or mismatched end tag, text after an end tag or after an aggregate
start... etc.

Trees are (tag, data) for leaves and (tag, [children]) for aggregates; data is
whitespace-trimmed and left entity-escaped.
"""

NAME_CHARS = set("ABCDEFGHIJKLMNOPQRSTUVWXYZ0123456789._")
WS = " \t\r\n\f\v"


class RefError(Exception):
    pass


def tokenize(text):
    """-> list of ('start', name) | ('end', name) | ('data', str) | ('cdata', str)"""
    toks = []
    i, n = 0, len(text)
    while i < n:
        c = text[i]
        if c == "<":
            if text.startswith("<![CDATA[", i):
                j = text.find("]]>", i + 9)
                if j < 0:
                    raise RefError(f"unterminated CDATA at {i}")
                toks.append(("cdata", text[i + 9:j]))
                i = j + 3
                continue
            j = text.find(">", i)
            if j < 0:
                raise RefError(f"unterminated tag at {i}")
            name = text[i + 1:j]
            kind = "start"
            if name.startswith("/"):
                kind, name = "end", name[1:]
            elif name.endswith("/"):
                # XML empty-element tag: <NAME/> or <NAME /> = <NAME></NAME>
                kind, name = "empty", name[:-1].rstrip(" ")
            if not name or any(ch not in NAME_CHARS for ch in name):
                raise RefError(f"bad tag name {name!r} at {i}")
            toks.append((kind, name))
            i = j + 1
        else:
            j = text.find("<", i)
            if j < 0:
                j = n
            chunk = text[i:j]
            if chunk.strip(WS):
                toks.append(("data", chunk.strip(WS)))
            i = j
    return toks


def parse(text):
    """-> tree, or raises RefError when the body is not a well-formed OFX body."""
    toks = tokenize(text)
    root = None
    stack = []  # open aggregates: [tag, children]
    i, n = 0, len(toks)

    def attach(node):
        nonlocal root
        if stack:
            stack[-1][1].append(node)
        elif root is None:
            root = node
        else:
            raise RefError("second top-level element")

    while i < n:
        kind, val = toks[i]
        if kind == "start":
            nxt = toks[i + 1] if i + 1 < n else None
            if nxt and nxt[0] in ("data", "cdata"):
                data = nxt[1]
                if nxt[0] == "cdata" and not data.strip(WS):
                    raise RefError("blank CDATA")
                if root is not None and not stack:
                    raise RefError("second top-level element")
                i += 2
                if i < n and toks[i] == ("end", val):
                    i += 1
                attach((val, data))
                continue
            if root is not None and not stack:
                raise RefError("second top-level element")
            stack.append([val, []])
            i += 1
        elif kind == "empty":
            if root is not None and not stack:
                raise RefError("second top-level element")
            nxt = toks[i + 1] if i + 1 < n else None
            if nxt and nxt[0] in ("data", "cdata"):
                raise RefError(f"stray {nxt[0]} after empty-element tag <{val}/>")
            attach((val, []))
            i += 1
        elif kind == "end":
            if not stack or stack[-1][0] != val:
                raise RefError(f"end tag </{val}> does not match open {stack[-1][0] if stack else None}")
            tag, children = stack.pop()
            attach((tag, children))
            i += 1
        else:
            raise RefError(f"stray {kind} {val[:20]!r}")
    if stack:
        raise RefError(f"open aggregates at end: {[s[0] for s in stack]}")
    if root is None:
        raise RefError("no element")
    return root


def from_etree(elem):
    """ET.Element -> same tree shape (for comparing with the library's result)."""
    if len(elem) == 0 and elem.text is not None and elem.text.strip(WS) != "":
        return (elem.tag, elem.text)
    kids = [from_etree(c) for c in elem]
    if len(elem) and elem.text is not None and elem.text.strip(WS):
        return (elem.tag, kids, "TEXT-ON-AGGREGATE:" + elem.text)
    return (elem.tag, kids)


def tails(elem):
    """Any non-blank tail text anywhere in an ET tree (must be none)."""
    out = []
    for e in elem.iter():
        if e.tail is not None and e.tail.strip(WS):
            out.append((e.tag, e.tail))
    return out


def count(tree):
    if isinstance(tree[1], list):
        return 1 + sum(count(c) for c in tree[1])
    return 1


def selftest():
    ok = [
        ("<A><B>1<C>2</C></A>", ("A", [("B", "1"), ("C", "2")])),
        ("<A>\n <B> x y \n<C><![CDATA[q]]></C><D></D></A>\n", ("A", [("B", "x y"), ("C", "q"), ("D", [])])),
        ("<A><B><![CDATA[l1\nl2]]><C>1</A>", ("A", [("B", "l1\nl2"), ("C", "1")])),
        ("<X.Y>a&amp;b", ("X.Y", "a&amp;b")),
        ("<A></A>", ("A", [])),
    ]
    for text, want in ok:
        got = parse(text)
        assert got == want, (text, got)
    bad = ["<A><B>1", "<A><B>1</C></A>", "<A></A><B></B>", "</A>", "<A></A></A>", "<A>1</A>x", "<A><B></A>",
           "", "   ", "<A><B>1</B>text</A>", "<A", "<A><![CDATA[x</A>", "<a>1</a>", "<A>1</A><B>2</B>"]
    for text in bad:
        try:
            r = parse(text)
        except RefError:
            continue
        raise AssertionError((text, r))
    return True
