"""Frozen copy of the ISIN country prefixes the library's table of numbering agencies is meant to hold (the reviewed table, with
the four keys that had lost their second letter restored: HU, RU, LU, AU).  The C20 check takes "known prefix" from HERE, not from
the table under test - a table that loses or mangles a key agrees with itself.  REAL_ISINS are identifiers of listed securities
(check digits re-verified by vf.oracles.ref_checkdigit at start-up): anchors that do not come out of any generator."""

PREFIXES = ['AA', 'AR', 'AT', 'AU', 'BE', 'BG', 'BR', 'CA', 'CH', 'CL', 'CN', 'CR', 'CS', 'CY', 'CZ', 'DE', 'DK', 'EE', 'EG', 'ES', 'FI', 'FR', 'GB', 'GR', 'HK', 'HR', 'HU', 'ID', 'IE', 'IL', 'IN', 'IR', 'IS', 'IT', 'JO', 'JP', 'KR', 'KW', 'LB', 'LK', 'LU', 'LV', 'MO', 'MX', 'MY', 'NL', 'NO', 'PA', 'PE', 'PH', 'PK', 'PL', 'PT', 'RO', 'RU', 'SE', 'SG', 'SI', 'SK', 'TH', 'TN', 'TR', 'TW', 'UA', 'US', 'VE', 'XS', 'ZA']

REAL_ISINS = ["US0378331005", "AU000000BHP4", "LU0323134006", "RU0007661625", "HU0000061726", "DE000BAY0017", "GB0002634946", "CH0012032048",
              "JP3633400001", "FR0000120271", "NL0000009165", "CA0679011084"]
