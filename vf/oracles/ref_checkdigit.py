"""Check digits of CUSIP, SEDOL and ISIN, written from the published algorithms
(CUSIP: ANSI X9.6 "modulus 10 double-add-double"; SEDOL: LSE weights
1,3,1,7,3,9; ISIN: ISO 6166 Luhn over letter-expanded digits).  Independent of
ofxtools.utils - shares no code with it.
"""

_VAL = {c: i for i, c in enumerate("0123456789ABCDEFGHIJKLMNOPQRSTUVWXYZ*@#")}

CUSIP_ALPHABET = "0123456789ABCDEFGHIJKLMNOPQRSTUVWXYZ*@#"
SEDOL_ALPHABET = "0123456789BCDFGHJKLMNPQRSTVWXYZ"  # no vowels
ALNUM = "0123456789ABCDEFGHIJKLMNOPQRSTUVWXYZ"


def cusip_check(base: str) -> str:
    total = 0
    for pos, ch in enumerate(base, start=1):
        v = _VAL[ch]
        if pos % 2 == 0:
            v *= 2
        total += v // 10 + v % 10
    return str((10 - total % 10) % 10)


_SEDOL_W = (1, 3, 1, 7, 3, 9)


def sedol_check(base: str) -> str:
    total = 0
    for w, ch in zip(_SEDOL_W, base):
        total += w * _VAL[ch]
    return str((10 - total % 10) % 10)


def isin_check(base: str) -> str:
    digits = []
    for ch in base:
        v = _VAL[ch]
        if v >= 10:
            digits.append(v // 10)
            digits.append(v % 10)
        else:
            digits.append(v)
    total = 0
    # rightmost digit of the payload is doubled, then every second one
    for i, d in enumerate(reversed(digits)):
        if i % 2 == 0:
            d *= 2
            if d > 9:
                d -= 9
        total += d
    return str((10 - total % 10) % 10)


def selftest():
    # Published examples: Apple CUSIP 037833100, ISIN US0378331005; BAE SEDOL 0263494,
    # ISIN GB0002634946; Treasury ISIN US9128285M81? (not used); CUSIP with letters 17275R102
    assert cusip_check("03783310") == "0"
    assert cusip_check("17275R10") == "2"
    assert cusip_check("38259P50") == "8"
    assert sedol_check("026349") == "4"
    assert sedol_check("B0YBKJ") == "7"
    assert isin_check("US037833100") == "5"
    assert isin_check("GB000263494") == "6"
    assert isin_check("AU0000XVGZA") == "3"
    return True
