"""Independent reader of OFX v1 / v2 headers (hand scanner, no regex shared with
ofxtools/header.py).  Returns (kind, fields, body_offset_in_bytes).

v1: the nine 'NAME:value' fields in the fixed order, separated by any amount of
whitespace (CR, LF, blanks) or by nothing at all; blanks allowed after the colon;
COMPRESSION may be absent.  v2: <?xml ...?> then <?OFX a="v" ...?> with single
or double quotes.  The header is ASCII; body offset = first byte after the last
header value (v1) / after '?>' of the OFX declaration (v2); callers strip
whitespace.
"""

V1_FIELDS = ["OFXHEADER", "DATA", "VERSION", "SECURITY", "ENCODING", "CHARSET", "COMPRESSION", "OLDFILEUID", "NEWFILEUID"]
V2_FIELDS = ["OFXHEADER", "VERSION", "SECURITY", "OLDFILEUID", "NEWFILEUID"]
VALUE_CHARS = set(b"ABCDEFGHIJKLMNOPQRSTUVWXYZabcdefghijklmnopqrstuvwxyz0123456789_-")
WS = b" \t\r\n\f\v"


class HeaderError(Exception):
    pass


def _skip_ws(b, i):
    while i < len(b) and b[i] in WS:
        i += 1
    return i


def parse(data: bytes):
    i = _skip_ws(data, 0)
    if data.startswith(b"<?xml", i):
        return _parse_v2(data, i)
    return _parse_v1(data, i)


def _parse_v1(b, i):
    # locate the field tokens in order; a value never contains ':' so the first
    # occurrence of 'NAME:' after the previous token is the field itself
    toks = []
    cursor = i
    for name in V1_FIELDS:
        tok = name.encode() + b":"
        p = b.find(tok, cursor)
        if name == "OFXHEADER" and p != i:
            raise HeaderError("file does not start with OFXHEADER:")
        if p < 0:
            if name == "COMPRESSION":
                continue
            raise HeaderError(f"missing {name}")
        if name == "COMPRESSION":
            q = b.find(b"OLDFILEUID:", cursor)
            if q < 0 or p > q:
                continue
        toks.append((name, p, p + len(tok)))
        cursor = p + len(tok)
    fields = {}
    end = None
    for k, (name, p, vstart) in enumerate(toks):
        if k + 1 < len(toks):
            raw = b[vstart:toks[k + 1][1]]
            val = raw.strip(WS)
        else:
            j = vstart
            while j < len(b) and b[j] in b" \t":
                j += 1
            e = j
            while e < len(b) and b[e] in VALUE_CHARS:
                e += 1
            val = b[j:e]
            end = e
        if not val or any(c not in VALUE_CHARS for c in val):
            raise HeaderError(f"bad value for {name}: {val[:40]!r}")
        fields[name] = val.decode("ascii")
    return "v1", fields, end


def _parse_v2(b, i):
    j = b.find(b"?>", i)
    if j < 0:
        raise HeaderError("unterminated xml declaration")
    i = _skip_ws(b, j + 2)
    if not b.startswith(b"<?OFX", i):
        raise HeaderError("missing OFX declaration")
    i += 5
    fields = {}
    for name in V2_FIELDS:
        i = _skip_ws(b, i)
        tok = name.encode() + b"="
        if not b.startswith(tok, i):
            raise HeaderError(f"expected {name} at byte {i}")
        i += len(tok)
        q = b[i:i + 1]
        if q not in (b'"', b"'"):
            raise HeaderError("attribute value not quoted")
        j = b.find(q, i + 1)
        if j < 0:
            raise HeaderError("unterminated attribute value")
        fields[name] = b[i + 1:j].decode("ascii")
        i = j + 1
    i = _skip_ws(b, i)
    if not b.startswith(b"?>", i):
        raise HeaderError("OFX declaration not closed")
    return "v2", fields, i + 2


CODECS = {"ISO-8859-1": "latin_1", "1252": "cp1252", "NONE": "utf_8"}


def body_text(data: bytes):
    kind, fields, off = parse(data)
    codec = "utf_8" if kind == "v2" else CODECS[fields["CHARSET"]]
    return kind, fields, data[off:].decode(codec)


def selftest():
    v1 = b"OFXHEADER:100\r\nDATA:OFXSGML\r\nVERSION:102\r\nSECURITY:NONE\r\nENCODING:USASCII\r\nCHARSET:1252\r\nCOMPRESSION:NONE\r\nOLDFILEUID:NONE\r\nNEWFILEUID:ab-c_1\r\n\r\n<OFX>\x80</OFX>"
    k, f, body = body_text(v1)
    assert k == "v1" and f["NEWFILEUID"] == "ab-c_1" and body.strip() == "<OFX>€</OFX>", (f, body)
    glued = b"OFXHEADER:100DATA:OFXSGMLVERSION:160SECURITY:TYPE1ENCODING:UTF-8CHARSET:NONEOLDFILEUID:NONENEWFILEUID:NONE<OFX></OFX>"
    k, f, body = body_text(glued)
    assert f["VERSION"] == "160" and "COMPRESSION" not in f and body == "<OFX></OFX>"
    v2 = b"<?xml version='1.0' encoding='UTF-8'?><?OFX OFXHEADER='200' VERSION=\"211\" SECURITY='NONE' OLDFILEUID='NONE' NEWFILEUID='x'?><OFX/>"
    k, f, body = body_text(v2)
    assert k == "v2" and f["VERSION"] == "211" and body == "<OFX/>"
    return True
