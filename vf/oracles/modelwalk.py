"""Canonical snapshot of a model instance and structural comparison.

Nothing of the library's own equality / __getattr__ proxy / spec machinery is
used: children are read from ``instance.__dict__`` using the order computed by
ref_decl, list members by ``list.__iter__``.

C01 equality: datetimes as integer epoch-microseconds rounded to ms, times as
ms-of-day in UTC, decimals by as_tuple() (value AND exponent), strings exact.
"""
import datetime
import decimal

from vf.oracles import ref_decl

_EPOCH = datetime.datetime(1970, 1, 1, tzinfo=datetime.timezone.utc)
_US = datetime.timedelta(microseconds=1)


def dt_us(x):
    return (x - _EPOCH) // _US


def time_us(x):
    off = x.utcoffset() // _US
    return ((x.hour * 3600 + x.minute * 60 + x.second) * 10**6 + x.microsecond - off) % (86400 * 10**6)


def leaf(x, exact=False):
    if isinstance(x, datetime.datetime):
        if x.utcoffset() is None:
            return ("naive-dt", repr(x))
        us = dt_us(x)
        return ("dt_us", us) if exact else ("dt_ms", (us + 500) // 1000)
    if isinstance(x, datetime.time):
        if x.utcoffset() is None:
            return ("naive-tm", repr(x))
        us = time_us(x)
        return ("tm_us", us) if exact else ("tm_ms", ((us + 500) // 1000) % 86400000)
    if isinstance(x, decimal.Decimal):
        return ("dec", tuple(x.as_tuple()))
    if isinstance(x, bool):
        return ("bool", x)
    if isinstance(x, int):
        return ("int", x)
    if isinstance(x, str):
        return ("str", x)
    return (type(x).__name__, repr(x))


def snap(x, exact=False):
    from ofxtools.models.base import Aggregate

    if isinstance(x, Aggregate):
        cls = type(x)
        items = []
        for k, d in ref_decl.decl(cls).items():
            kind = ref_decl.kind_of(d)
            if kind in ("unsupported", "listagg", "listelem"):
                continue
            v = x.__dict__.get(k)
            if v is not None:
                items.append((k, snap(v, exact)))
        members = tuple(snap(m, exact) for m in list.__iter__(x))
        return ("AGG", cls.__name__, tuple(items), members)
    return leaf(x, exact)


def diff(a, b, path=""):
    """First differing path between two snapshots, or None."""
    if isinstance(a, tuple) and a and a[0] == "AGG":
        if not (isinstance(b, tuple) and b and b[0] == "AGG"):
            return f"{path}: aggregate {a[1]} vs {b!r}"[:300]
        if a[1] != b[1]:
            return f"{path}: class {a[1]} vs {b[1]}"
        da, db = dict(a[2]), dict(b[2])
        if [k for k, _ in a[2]] != [k for k, _ in b[2]]:
            only_a = [k for k in da if k not in db]
            only_b = [k for k in db if k not in da]
            if only_a or only_b:
                return f"{path}/{a[1]}: children present only in first {only_a}, only in second {only_b}"
        for k in da:
            r = diff(da[k], db[k], f"{path}/{a[1]}.{k}")
            if r:
                return r
        if len(a[3]) != len(b[3]):
            return (f"{path}/{a[1]}: {len(a[3])} list members {[m[1] if m[0] == 'AGG' else m for m in a[3]][:8]} vs "
                    f"{len(b[3])} {[m[1] if m[0] == 'AGG' else m for m in b[3]][:8]}")
        for i, (x, y) in enumerate(zip(a[3], b[3])):
            r = diff(x, y, f"{path}/{a[1]}[{i}]")
            if r:
                return r
        return None
    if a != b:
        return f"{path}: {a!r} vs {b!r}"[:400]
    return None


def count_nodes(s):
    if isinstance(s, tuple) and s and s[0] == "AGG":
        return 1 + sum(count_nodes(v) for _, v in s[2]) + sum(count_nodes(m) for m in s[3])
    return 1


def paths(s, prefix=""):
    """Flat list of (path, leaf) pairs - for C03."""
    out = []
    if isinstance(s, tuple) and s and s[0] == "AGG":
        here = f"{prefix}/{s[1]}"
        for k, v in s[2]:
            if isinstance(v, tuple) and v and v[0] == "AGG":
                out.extend(paths(v, here))
            else:
                out.append((f"{here}.{k}", v))
        for i, m in enumerate(s[3]):
            if isinstance(m, tuple) and m and m[0] == "AGG":
                out.extend(paths(m, f"{here}[{i}]"))
            else:
                out.append((f"{here}[{i}]", m))
    return out


def selftest():
    import datetime as _dt
    import decimal as _d
    from ofxtools.models import BANKACCTFROM, BALLIST, BAL

    a = BANKACCTFROM(bankid="1", acctid="2", accttype="CHECKING")
    b = BANKACCTFROM(bankid="1", acctid="2", accttype="SAVINGS")
    assert diff(snap(a), snap(a)) is None and diff(snap(a), snap(b)) is not None
    t = _dt.datetime(2020, 1, 1, tzinfo=_dt.timezone.utc)
    m1 = BAL(name="n", desc="d", baltype="DOLLAR", value=_d.Decimal("1.0"), dtasof=t)
    m2 = BAL(name="n", desc="d", baltype="DOLLAR", value=_d.Decimal("1.00"), dtasof=t)
    assert diff(snap(m1), snap(m2)) is not None, "decimal exponent must matter"
    assert diff(snap(BALLIST(m1, m2)), snap(BALLIST(m2, m1))) is not None, "list order must matter"
    m3 = BAL(name="n", desc="d", baltype="DOLLAR", value=_d.Decimal("1.0"), dtasof=t + _dt.timedelta(microseconds=400))
    assert diff(snap(m1), snap(m3)) is None and diff(snap(m1, exact=True), snap(m3, exact=True)) is not None
    return True
