"""The OFX lexical and value rules of the element data types, written
independently of ofxtools.Types (no shared regex, no datetime arithmetic: dates
are turned into integer epoch-microseconds by a days-from-civil computation).

Three-valued: functions return a value for MUST-ACCEPT texts, raise Reject for
MUST-REJECT texts, and raise Unspecified where the property fixes nothing.
"""
import decimal


class Reject(Exception):
    pass


class Unspecified(Exception):
    pass


# ---- calendar ------------------------------------------------------------
def days_from_civil(y, m, d):
    """Days since 1970-01-01 in the proleptic Gregorian calendar (H. Hinnant's algorithm)."""
    y -= m <= 2
    era = (y if y >= 0 else y - 399) // 400
    yoe = y - era * 400
    doy = (153 * (m + (-3 if m > 2 else 9)) + 2) // 5 + d - 1
    doe = yoe * 365 + yoe // 4 - yoe // 100 + doy
    return era * 146097 + doe - 719468


def days_in_month(y, m):
    if m == 2:
        return 29 if (y % 4 == 0 and (y % 100 != 0 or y % 400 == 0)) else 28
    return 30 if m in (4, 6, 9, 11) else 31


def _digits(s):
    return s != "" and all(c in "0123456789" for c in s)


def parse_offset(body):
    """'[' ... ']' content -> (offset_minutes, name|None)."""
    name = None
    if ":" in body:
        body, name = body.split(":", 1)
    sign = 1
    num = body
    if num[:1] in "+-":
        sign = -1 if num[0] == "-" else 1
        num = num[1:]
    mins = 0
    if "." in num:
        num, mm = num.split(".", 1)
        if len(mm) != 2 or not _digits(mm):
            raise Reject(f"bad offset minutes {mm!r}")
        mins = int(mm)
        if mins > 59:
            raise Unspecified("offset minutes > 59")
    if num == "":
        raise Unspecified("empty offset hours")  # e.g. the '[-:EST]' form some brokers send
    if not _digits(num):
        raise Reject(f"non-numeric offset hours {num!r}")
    if len(num) > 2:
        raise Unspecified("offset hours with more than two digits")
    total = sign * (int(num) * 60 + mins)
    if total < -12 * 60 or total > 14 * 60:
        raise Unspecified("offset outside -12:00..+14:00")
    return total, name


def _tail(rest):
    """'.XXX' and '[offset]' parts -> (ms, offset_minutes)."""
    ms = 0
    if rest.startswith("."):
        frac = rest[1:4]
        if len(frac) != 3 or not _digits(frac):
            raise Reject("milliseconds must be three digits")
        ms = int(frac)
        rest = rest[4:]
    off = 0
    if rest:
        if not (rest.startswith("[") and rest.endswith("]")):
            raise Reject(f"trailing garbage {rest!r}")
        off, _name = parse_offset(rest[1:-1])
    return ms, off


def _hms(s):
    if len(s) != 6 or not _digits(s):
        raise Reject("time of day must be six digits")
    h, mi, sec = int(s[0:2]), int(s[2:4]), int(s[4:6])
    if h > 23 or mi > 59:
        raise Reject("hour/minute out of range")
    if sec == 60:
        raise Unspecified("leap second")
    if sec > 60:
        raise Reject("second out of range")
    return h, mi, sec


def parse_datetime(text):
    """-> instant in integer microseconds since the epoch (UTC)."""
    if len(text) < 8 or not _digits(text[:8]):
        raise Reject("date must start with eight digits")
    y, m, d = int(text[0:4]), int(text[4:6]), int(text[6:8])
    if not 1 <= m <= 12:
        raise Reject("month out of range")
    if not 1 <= d <= days_in_month(y, m):
        raise Reject("day out of range")
    rest = text[8:]
    h = mi = sec = ms = off = 0
    if rest:
        h, mi, sec = _hms(rest[:6])
        ms, off = _tail(rest[6:])
    if y < 1 or y > 9999:
        raise Unspecified("year outside datetime range")
    local = ((days_from_civil(y, m, d) * 24 + h) * 60 + mi) * 60 + sec
    return (local - off * 60) * 10**6 + ms * 1000


def parse_time(text):
    """-> microseconds after UTC midnight (mod 24 h)."""
    h, mi, sec = _hms(text[:6])
    ms, off = _tail(text[6:])
    us = ((h * 60 + mi) * 60 + sec) * 10**6 + ms * 1000 - off * 60 * 10**6
    return us % (86400 * 10**6)


def written_datetime_ok(text, with_date=True):
    """Output grammar: [YYYYMMDD]HHMMSS.XXX[+h[.mm][:name]]"""
    n = 14 if with_date else 6
    if len(text) < n + 4 + 4 or not _digits(text[:n]):
        return False
    if text[n] != "." or not _digits(text[n + 1:n + 4]):
        return False
    rest = text[n + 4:]
    if not (rest.startswith("[") and rest.endswith("]")):
        return False
    body = rest[1:-1]
    num = body.split(":", 1)[0]
    if num[:1] not in "+-":
        return False
    hh, _, mm = num[1:].partition(".")
    if not _digits(hh) or len(hh) > 2:
        return False
    if mm and (len(mm) != 2 or not _digits(mm)):
        return False
    return True


# ---- simple types ----------------------------------------------------------
ENTITIES = {"&amp;": "&", "&lt;": "<", "&gt;": ">", "&nbsp;": " ", "&apos;": "'", "&quot;": '"'}


def decode_chardata(text):
    """Decode exactly the six OFX entities, once, left to right."""
    out = []
    i, n = 0, len(text)
    while i < n:
        if text[i] == "&":
            for ent, ch in ENTITIES.items():
                if text.startswith(ent, i):
                    out.append(ch)
                    i += len(ent)
                    break
            else:
                out.append("&")
                i += 1
        else:
            out.append(text[i])
            i += 1
    return "".join(out)


def parse_bool(text):
    if text == "Y":
        return True
    if text == "N":
        return False
    raise Reject(f"not Y/N: {text!r}")


def int_lexical_ok(text):
    body = text[1:] if text[:1] in "+-" else text
    return _digits(body)


def parse_int(text):
    if not int_lexical_ok(text):
        if text.strip() != text or "_" in text or not text.isascii():
            raise Unspecified("python int() leniency")
        raise Reject(f"not an integer: {text!r}")
    return int(text)


def decimal_lexical_ok(text):
    """[+-]? digits* [.,]? digits*  with at least one digit - plain notation only."""
    body = text[1:] if text[:1] in "+-" else text
    seps = [c for c in body if c in ".,"]
    if len(seps) > 1:
        return False
    digits = body.replace(".", "").replace(",", "")
    return _digits(digits)


def parse_decimal(text):
    if not decimal_lexical_ok(text):
        low = text.lower()
        if "e" in low and decimal_lexical_ok(low.split("e")[0]):
            raise Unspecified("exponent notation on read")
        if text.strip() != text or "_" in text or not text.isascii():
            raise Unspecified("decimal.Decimal() leniency")
        raise Reject(f"not a decimal: {text!r}")
    return decimal.Decimal(text.replace(",", "."))


def selftest():
    assert days_from_civil(1970, 1, 1) == 0 and days_from_civil(2000, 3, 1) == 11017 and days_from_civil(1969, 12, 31) == -1
    assert parse_datetime("19700101") == 0
    assert parse_datetime("20010911084600.123[-5:EST]") == (days_from_civil(2001, 9, 11) * 86400 + 13 * 3600 + 46 * 60) * 10**6 + 123000
    assert parse_datetime("20200101120000.000[-0.30:NST]") == parse_datetime("20200101123000")
    assert parse_datetime("20200101120000[5.30]") == parse_datetime("20200101063000")
    assert parse_time("000000.000[+1]") == 23 * 3600 * 10**6
    for bad in ("2020010", "20201301", "20200230", "20200100", "20200132", "20200101240000", "20200101126000", "2020010112000", "20200101120000.12", "2020010112000a", "20200101120000.000[", "20200101120000.000[-5x30]"):
        try:
            parse_datetime(bad)
        except Reject:
            continue
        raise AssertionError(bad)
    assert decode_chardata("a&amp;lt;b&lt;&nbsp;&apos;&quot;&gt;&;&amp") == "a&lt;b< '\">&;&amp"
    assert written_datetime_ok("20200101120000.000[-0.30:X]") and written_datetime_ok("120000.000[+5]", False)
    assert not written_datetime_ok("20200101120000.000[5]") and not written_datetime_ok("20200101120000[+5]")
    assert decimal_lexical_ok("-1,5") and decimal_lexical_ok(".5") and decimal_lexical_ok("+12.") and not decimal_lexical_ok("1E+2") and not decimal_lexical_ok("NaN") and not decimal_lexical_ok("1.2.3") and not decimal_lexical_ok("-")
    return True
