"""What an OFX request says, read from its bytes by the independent readers
(ref_header + ref_sgml + ref_types) - never through ofxtools.

describe(bytes) -> dict with header kind/version, the sign-on fields and the
list of transaction wrappers (kind, message set, trnuid, account identifiers,
dates as epoch-us instants, include flags) in document order, plus every tag
that the description did not account for ("extra").
"""
from vf.oracles import ref_header, ref_sgml
from vf.oracles import ref_types as R


class RequestError(Exception):
    pass


def _kids(node):
    if not isinstance(node[1], list):
        raise RequestError(f"<{node[0]}> is a data element, expected an aggregate")
    return node[1]


def _one(node, tag, required=True):
    hits = [c for c in _kids(node) if c[0] == tag]
    if len(hits) > 1:
        raise RequestError(f"<{node[0]}> has {len(hits)} <{tag}> children")
    if not hits:
        if required:
            raise RequestError(f"<{node[0]}> lacks <{tag}>")
        return None
    return hits[0]


def _text(node, tag, required=True):
    c = _one(node, tag, required)
    if c is None:
        return None
    if isinstance(c[1], list):
        raise RequestError(f"<{tag}> is an aggregate, expected data")
    return R.decode_chardata(c[1])


def _dt(node, tag):
    t = _text(node, tag, required=False)
    return None if t is None else R.parse_datetime(t)


def _bool(node, tag, required=True):
    t = _text(node, tag, required)
    return None if t is None else R.parse_bool(t)


def _known(node, allowed, extra, path):
    for c in _kids(node):
        if c[0] not in allowed:
            extra.append(f"{path}/{node[0]}/{c[0]}")


WRAPPERS = {
    "STMTTRNRQ": ("BANKMSGSRQV1", "STMTRQ", "stmt"),
    "STMTENDTRNRQ": ("BANKMSGSRQV1", "STMTENDRQ", "stmtend"),
    "CCSTMTTRNRQ": ("CREDITCARDMSGSRQV1", "CCSTMTRQ", "ccstmt"),
    "CCSTMTENDTRNRQ": ("CREDITCARDMSGSRQV1", "CCSTMTENDRQ", "ccstmtend"),
    "INVSTMTTRNRQ": ("INVSTMTMSGSRQV1", "INVSTMTRQ", "invstmt"),
    "ACCTINFOTRNRQ": ("SIGNUPMSGSRQV1", "ACCTINFORQ", "acctinfo"),
    "PROFTRNRQ": ("PROFMSGSRQV1", "PROFRQ", "profile"),
    "TAX1099TRNRQ": ("TAX1099MSGSRQV1", "TAX1099RQ", "tax1099"),
}


def describe(data: bytes):
    kind, fields, body = ref_header.body_text(data)
    root = ref_sgml.parse(body.strip())
    if root[0] != "OFX":
        raise RequestError(f"root is <{root[0]}>")
    extra = []
    out = {"header_kind": kind, "version": int(fields["VERSION"]), "newfileuid": fields["NEWFILEUID"], "oldfileuid": fields["OLDFILEUID"],
           "header_fields": fields, "requests": [], "extra": extra}
    so = _one(root, "SIGNONMSGSRQV1")
    _known(so, {"SONRQ"}, extra, "OFX")
    sonrq = _one(so, "SONRQ")
    _known(sonrq, {"DTCLIENT", "USERID", "USERPASS", "LANGUAGE", "FI", "APPID", "APPVER", "CLIENTUID", "SESSCOOKIE"}, extra, "OFX/SIGNONMSGSRQV1")
    fi = _one(sonrq, "FI", required=False)
    if fi is not None:
        _known(fi, {"ORG", "FID"}, extra, "SONRQ")
    out["signon"] = {
        "dtclient": _dt(sonrq, "DTCLIENT"), "userid": _text(sonrq, "USERID", False), "userpass": _text(sonrq, "USERPASS", False),
        "language": _text(sonrq, "LANGUAGE"), "appid": _text(sonrq, "APPID"), "appver": _text(sonrq, "APPVER"),
        "clientuid": _text(sonrq, "CLIENTUID", False), "fi": None if fi is None else {"org": _text(fi, "ORG"), "fid": _text(fi, "FID", False)},
    }
    msgsets = [c for c in _kids(root) if c[0] != "SIGNONMSGSRQV1"]
    seen_sets = set()
    for ms in msgsets:
        if ms[0] in seen_sets:
            raise RequestError(f"message set <{ms[0]}> occurs twice")
        seen_sets.add(ms[0])
        for w in _kids(ms):
            if w[0] not in WRAPPERS:
                extra.append(f"OFX/{ms[0]}/{w[0]}")
                continue
            want_ms, rqtag, rkind = WRAPPERS[w[0]]
            if want_ms != ms[0]:
                raise RequestError(f"<{w[0]}> under <{ms[0]}>, belongs under <{want_ms}>")
            _known(w, {"TRNUID", "CLTCOOKIE", rqtag}, extra, f"OFX/{ms[0]}")
            rq = _one(w, rqtag)
            r = {"kind": rkind, "msgset": ms[0], "trnuid": _text(w, "TRNUID")}
            if rkind in ("stmt", "stmtend"):
                a = _one(rq, "BANKACCTFROM")
                _known(a, {"BANKID", "ACCTID", "ACCTTYPE"}, extra, rqtag)
                r.update(bankid=_text(a, "BANKID"), acctid=_text(a, "ACCTID"), accttype=_text(a, "ACCTTYPE"))
            elif rkind in ("ccstmt", "ccstmtend"):
                a = _one(rq, "CCACCTFROM")
                _known(a, {"ACCTID"}, extra, rqtag)
                r.update(acctid=_text(a, "ACCTID"))
            elif rkind == "invstmt":
                a = _one(rq, "INVACCTFROM")
                _known(a, {"BROKERID", "ACCTID"}, extra, rqtag)
                r.update(brokerid=_text(a, "BROKERID"), acctid=_text(a, "ACCTID"))
            if rkind in ("stmt", "ccstmt", "invstmt"):
                inc = _one(rq, "INCTRAN", required=(rkind != "invstmt"))
                if inc is not None:
                    _known(inc, {"DTSTART", "DTEND", "INCLUDE"}, extra, rqtag)
                    r.update(inctran=_bool(inc, "INCLUDE"), dtstart=_dt(inc, "DTSTART"), dtend=_dt(inc, "DTEND"))
                else:
                    r.update(inctran=None, dtstart=None, dtend=None)
            if rkind in ("stmtend", "ccstmtend"):
                r.update(dtstart=_dt(rq, "DTSTART"), dtend=_dt(rq, "DTEND"))
            if rkind == "invstmt":
                pos = _one(rq, "INCPOS")
                _known(pos, {"DTASOF", "INCLUDE"}, extra, rqtag)
                r.update(incoo=_bool(rq, "INCOO"), incpos=_bool(pos, "INCLUDE"), dtasof=_dt(pos, "DTASOF"), incbal=_bool(rq, "INCBAL"))
                _known(rq, {"INVACCTFROM", "INCTRAN", "INCOO", "INCPOS", "INCBAL"}, extra, w[0])
            elif rkind == "stmt":
                _known(rq, {"BANKACCTFROM", "INCTRAN"}, extra, w[0])
            elif rkind == "ccstmt":
                _known(rq, {"CCACCTFROM", "INCTRAN"}, extra, w[0])
            elif rkind == "stmtend":
                _known(rq, {"BANKACCTFROM", "DTSTART", "DTEND"}, extra, w[0])
            elif rkind == "ccstmtend":
                _known(rq, {"CCACCTFROM", "DTSTART", "DTEND"}, extra, w[0])
            elif rkind == "acctinfo":
                _known(rq, {"DTACCTUP"}, extra, w[0])
                r.update(dtacctup=_dt(rq, "DTACCTUP"))
            elif rkind == "profile":
                _known(rq, {"CLIENTROUTING", "DTPROFUP"}, extra, w[0])
                r.update(clientrouting=_text(rq, "CLIENTROUTING"), dtprofup=_dt(rq, "DTPROFUP"))
            elif rkind == "tax1099":
                _known(rq, {"ACCTNUM", "RECID", "TAXYEAR"}, extra, w[0])
                r.update(acctnum=_text(rq, "ACCTNUM", False), recid=_text(rq, "RECID", False),
                         years=[R.parse_int(R.decode_chardata(c[1])) for c in _kids(rq) if c[0] == "TAXYEAR"])
            out["requests"].append(r)
    return out
