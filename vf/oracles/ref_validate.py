"""Independent validator: checks every declared constraint of a live instance.

Derived from ref_decl only (own MRO walk); reads values from instance.__dict__.
Returns a list of problem strings (empty = the instance satisfies all declared
constraints of its class), recursing into sub-aggregates and list members.
"""
import datetime
import decimal

from vf.oracles import ref_decl


def check(inst, path="", deep=True, out=None):
    from ofxtools import Types as T
    from ofxtools.models.base import Aggregate

    out = [] if out is None else out
    cls = type(inst)
    here = f"{path}/{cls.__name__}"
    d = ref_decl.decl(cls)
    listattrs = {k: t for k, t in d.items() if ref_decl.kind_of(t) in ("listagg", "listelem")}
    present = {}
    for k, t in d.items():
        kind = ref_decl.kind_of(t)
        if kind in ("unsupported", "listagg", "listelem"):
            continue
        v = inst.__dict__.get(k)
        present[k] = v is not None
        if v is None:
            if getattr(t, "required", False):
                out.append(f"{here}.{k}: required child missing")
            continue
        if kind == "sub":
            if not isinstance(v, t.__type__):
                out.append(f"{here}.{k}: {type(v).__name__} is not {t.__type__.__name__}")
            elif deep:
                check(v, here, deep, out)
            continue
        out.extend(f"{here}.{k}: {p}" for p in value_problems(T, t, v))
    # list members
    members = list(list.__iter__(inst))
    member_types = {}
    for k, t in listattrs.items():
        if ref_decl.kind_of(t) == "listagg":
            member_types[t.__type__.__name__.lower()] = t
    elemconv = [t for t in listattrs.values() if ref_decl.kind_of(t) == "listelem"]
    for i, m in enumerate(members):
        if isinstance(m, Aggregate):
            nm = type(m).__name__.lower()
            t = listattrs.get(nm)
            if t is None or ref_decl.kind_of(t) != "listagg" or not isinstance(m, t.__type__):
                out.append(f"{here}[{i}]: {type(m).__name__} is not a permitted list member")
            elif deep:
                check(m, f"{here}[{i}]", deep, out)
        else:
            if not elemconv:
                out.append(f"{here}[{i}]: element member {m!r} but class declares no repeated element")
            else:
                probs = value_problems(T, elemconv[0].converter, m)
                out.extend(f"{here}[{i}]: {p}" for p in probs)
    # exclusivity groups (in force per normal attribute lookup)
    opt, req = ref_decl.mutexes_in_force(cls)
    mtypes = {type(m).__name__.lower() for m in members}

    def on(g):
        return present.get(g, False) or g in mtypes

    for group in opt:
        n = sum(1 for g in group if on(g))
        if n > 1:
            out.append(f"{here}: at-most-one group {list(group)} has {n} members present")
    for group in req:
        n = sum(1 for g in group if on(g))
        if n != 1:
            out.append(f"{here}: exactly-one group {list(group)} has {n} members present")
    return out


def value_problems(T, t, v):
    probs = []
    if isinstance(t, T.Bool):
        if not isinstance(v, bool):
            probs.append(f"Bool holds {v!r}")
    elif isinstance(t, T.OneOf):
        if v not in t.valid:
            probs.append(f"{v!r} not in enumeration")
    elif isinstance(t, T.NagString):
        if not isinstance(v, str):
            probs.append(f"NagString holds {type(v).__name__}")
    elif isinstance(t, T.String):
        if not isinstance(v, str):
            probs.append(f"String holds {type(v).__name__}")
        elif t.length is not None and len(v) > t.length:
            probs.append(f"string of {len(v)} chars exceeds limit {t.length}")
    elif isinstance(t, T.Integer):
        if not isinstance(v, int):
            probs.append(f"Integer holds {type(v).__name__}")
        elif t.length is not None and abs(v) >= 10**t.length:
            probs.append(f"integer {v} has more than {t.length} digits")
    elif isinstance(t, T.Decimal):
        if not isinstance(v, decimal.Decimal):
            probs.append(f"Decimal holds {type(v).__name__}")
    elif isinstance(t, T.Time):
        if not isinstance(v, datetime.time) or v.utcoffset() is None:
            probs.append(f"Time holds {v!r}")
    elif isinstance(t, T.DateTime):
        if not isinstance(v, datetime.datetime) or v.utcoffset() is None:
            probs.append(f"DateTime holds {v!r}")
    return probs


def selftest():
    """The validator must see each kind of violation on hand-made broken instances (bypassing the constructor)."""
    import decimal as _d
    from ofxtools.models import BANKACCTFROM, STMTTRN, BALLIST, STATUS

    def raw(cls, members=(), **fields):
        x = cls.__new__(cls)
        list.__init__(x)
        for k in ref_decl.decl(cls):
            if ref_decl.kind_of(ref_decl.decl(cls)[k]) in ("elem", "sub"):
                x.__dict__[k] = None
        x.__dict__.update(fields)
        for m in members:
            list.append(x, m)
        return x

    ok = raw(BANKACCTFROM, bankid="1", acctid="2", accttype="CHECKING")
    assert check(ok) == [], check(ok)
    assert any("required" in p for p in check(raw(BANKACCTFROM, acctid="2", accttype="CHECKING")))
    assert any("enumeration" in p for p in check(raw(BANKACCTFROM, bankid="1", acctid="2", accttype="NOPE")))
    assert any("exceeds limit" in p for p in check(raw(BANKACCTFROM, bankid="1" * 10, acctid="2", accttype="CHECKING")))
    assert any("digits" in p for p in check(raw(STATUS, code=10**6, severity="INFO")))
    assert any("permitted list member" in p for p in check(raw(BALLIST, members=[ok])))
    assert any("no repeated element" in p for p in check(raw(BANKACCTFROM, members=["x"], bankid="1", acctid="2", accttype="CHECKING")))
    both = raw(STMTTRN, trntype="DEBIT", dtposted=None, trnamt=_d.Decimal(1), fitid="1", name="n", payee=ok)
    assert any("at-most-one" in p for p in check(both, deep=False)), check(both, deep=False)
    return True
