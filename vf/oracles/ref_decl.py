"""Declared structure of every Aggregate class, derived by an independent walk
over the MRO (not through Aggregate.spec / _superdict / _filter_attrs).

Semantics reproduced from the documentation of ``_superdict``: attributes in
class-definition order, base-most class first; the first occurrence of a name
fixes its position; the most-derived definition supplies the value.
"""
import inspect
from collections import OrderedDict

KINDS = ("elem", "sub", "listagg", "listelem", "unsupported")


def _types():
    from ofxtools import Types

    return Types


def all_classes():
    """name -> class for every ALL-CAPS Aggregate subclass exported by ofxtools.models."""
    import ofxtools.models as M
    from ofxtools.models.base import Aggregate

    out = {}
    for name, obj in vars(M).items():
        if inspect.isclass(obj) and issubclass(obj, Aggregate) and name == name.upper() and obj.__name__ == name:
            out[name] = obj
    return dict(sorted(out.items()))


def defined_classes():
    """Every ALL-CAPS Aggregate subclass defined in any loaded ofxtools.models.* module
    (to check that each one is exported by the package namespace)."""
    import sys
    from ofxtools.models.base import Aggregate

    out = {}
    for modname, mod in list(sys.modules.items()):
        if not modname.startswith("ofxtools.models") or mod is None:
            continue
        for name, obj in vars(mod).items():
            if (inspect.isclass(obj) and issubclass(obj, Aggregate) and name == name.upper()
                    and obj.__module__ == modname):
                out[name] = obj
    return out


def kind_of(desc):
    T = _types()
    if isinstance(desc, T.Unsupported):
        return "unsupported"
    if isinstance(desc, T.ListAggregate):
        return "listagg"
    if isinstance(desc, T.ListElement):
        return "listelem"
    if isinstance(desc, T.SubAggregate):
        return "sub"
    if isinstance(desc, T.Element):
        return "elem"
    return None


_CACHE = {}


def decl(cls):
    """OrderedDict attr -> descriptor (Element or Unsupported) in declared order."""
    got = _CACHE.get(cls)
    if got is not None:
        return got
    order = OrderedDict()
    for base in reversed(cls.__mro__):
        for k, v in vars(base).items():
            if kind_of(v) is not None and k not in order:
                order[k] = None
    for k in order:
        for base in cls.__mro__:
            if k in vars(base):
                order[k] = vars(base)[k]
                break
    # a name whose most-derived definition is not a descriptor is not a child
    out = OrderedDict((k, v) for k, v in order.items() if kind_of(v) is not None)
    _CACHE[cls] = out
    return out


def tag_of(cls, attr):
    """OFX tag under which a child attribute is written."""
    renames = {"frm": "FROM", "yld": "YIELD"}
    return renames.get(attr, attr.upper())


def mutexes_in_force(cls):
    """(optional groups, required groups) as normal attribute lookup finds them."""
    return list(cls.optionalMutexes), list(cls.requiredMutexes)


def mutexes_declared_anywhere(cls):
    """Groups declared by the class or ANY base (incl. mixins shadowed by base order)."""
    opt, req = [], []
    for base in cls.__mro__:
        for g in vars(base).get("optionalMutexes", []) or []:
            if list(g) not in opt:
                opt.append(list(g))
        for g in vars(base).get("requiredMutexes", []) or []:
            if list(g) not in req:
                req.append(list(g))
    return opt, req


def overrides_validate_args(cls):
    from ofxtools.models.base import Aggregate

    for base in cls.__mro__:
        if base is Aggregate:
            return False
        if "validate_args" in vars(base):
            return True
    return False


def touch_base_classes():
    """Use the public class-level API of every NON-exported Aggregate class (Aggregate itself, the TrnRq/TrnRs/SyncRqList/... bases,
    mixins) before anything else: whatever a base class computes or caches for itself must not leak into its subclasses.
    Returns the number of classes touched; nothing here is judged."""
    import sys
    from ofxtools.models.base import Aggregate

    seen = []
    for modname, mod in list(sys.modules.items()):
        if not modname.startswith("ofxtools.models") or mod is None:
            continue
        for name, obj in list(vars(mod).items()):
            if inspect.isclass(obj) and issubclass(obj, Aggregate) and obj not in seen and name != name.upper():
                seen.append(obj)
    for obj in [Aggregate] + seen:
        for attr in ("spec", "elements", "subaggregates", "unsupported", "spec_no_listaggregates", "listitems", "listaggregates", "listelements"):
            try:
                getattr(obj, attr)
            except Exception:  # noqa
                pass
        # ... and instances of them are made (an application may well build a TrnRq of its own): with nothing, and with the one child
        # the transaction wrappers' bases require
        for kw in ({}, {"trnuid": "1"}, {"trnuid": "1", "status": None}):
            try:
                x = obj(**kw)
                x.to_etree()
                hasattr(x, "nosuchname")
            except Exception:  # noqa
                pass
    return len(seen) + 1
