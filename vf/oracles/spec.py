"""The checks' own copy of the OFX element declarations (vf/oracles/spec_table.json, frozen by tools/mkspec.py).

Where a property speaks about what the *OFX specification* gives an element (C03: "the value that the OFX
data-type rules give its text", "every enumeration token"; C04: "enumerated value sets"), the expectation has
to come from somewhere else than the model classes under test - a model whose token list lost a comma agrees
with itself.  ``gold(cls, attr)`` returns a converter built from the frozen table (same parameters as the
reviewed declaration); ``differences()`` lists where the live declarations deviate from it.
"""
import json
import os
import threading

_TABLE = None


_LOCK = threading.Lock()


def table():
    global _TABLE
    if _TABLE is None:
        with _LOCK:  # the checks call this from many threads at once (C17): publish only a complete table
            if _TABLE is None:
                with open(os.path.join(os.path.dirname(__file__), "spec_table.json")) as f:
                    t = json.load(f)["classes"]
                for c in t.values():
                    c["by_attr"] = {k: e for k, e in c["children"]}
                _TABLE = t
    return _TABLE


def entry(clsname, attr):
    c = table().get(clsname)
    return None if c is None else c["by_attr"].get(attr)


_GOLD = {}


def gold(clsname, attr):
    """A converter with the parameters the frozen table gives (class, attr) - or None when the table does not know it
    (a class or child added later: callers fall back to the live declaration and count it)."""
    key = (clsname, attr)
    if key in _GOLD:
        return _GOLD[key]
    from ofxtools import Types as T

    e = entry(clsname, attr)
    conv = None
    if e is not None and e["kind"] in ("elem", "listelem"):
        t, req = e["type"], e["required"]
        if t == "OneOf":
            conv = T.OneOf(*e["tokens"], required=req)
        elif t in ("String", "NagString"):
            conv = getattr(T, t)(e["length"], required=req) if e["length"] is not None else getattr(T, t)(required=req)
        elif t == "Integer":
            conv = T.Integer(e["length"], required=req) if e["length"] is not None else T.Integer(required=req)
        elif t == "Decimal":
            conv = T.Decimal(e["scale"], required=req) if e["scale"] is not None else T.Decimal(required=req)
        elif t in ("Bool", "DateTime", "Time"):
            conv = getattr(T, t)(required=req)
    _GOLD[key] = conv
    return conv


def live_entry(d):
    from ofxtools import Types as T
    from vf.oracles import ref_decl

    kind = ref_decl.kind_of(d)
    e = {"kind": kind}
    if kind in ("sub", "listagg"):
        e["cls"] = d.__type__.__name__
        e["required"] = bool(getattr(d, "required", False))
        return e
    if kind == "unsupported":
        return e
    conv = d.converter if kind == "listelem" else d
    e["type"] = type(conv).__name__
    e["required"] = bool(getattr(conv, "required", False))
    if isinstance(conv, T.OneOf):
        e["tokens"] = [t for t in conv.valid]
    if isinstance(conv, (T.String, T.Integer)):
        e["length"] = conv.length
    if isinstance(conv, T.Decimal):
        e["scale"] = None if conv.scale is None else -conv.scale.as_tuple().exponent
    return e


def differences():
    """[(class, attr, what, table value, live value)] - reported in the evidence; each check turns the ones that matter
    to its property into executions of the real code (a witness), never into a verdict by itself."""
    from vf.oracles import ref_decl

    out = []
    live = ref_decl.all_classes()
    for name, c in table().items():
        cls = live.get(name)
        if cls is None:
            out.append((name, None, "class-missing", True, None))
            continue
        d = ref_decl.decl(cls)
        if [k for k, _ in c["children"]] != list(d):
            out.append((name, None, "children-or-order", [k for k, _ in c["children"]], list(d)))
        for k, e in c["children"]:
            if k not in d:
                continue
            le = live_entry(d[k])
            for field in sorted(set(e) | set(le)):
                if e.get(field) != le.get(field):
                    out.append((name, k, field, e.get(field), le.get(field)))
        # descriptors shared between two names of one class (one object, two attributes)
        seen = {}
        for k, dv in d.items():
            if id(dv) in seen and ref_decl.kind_of(dv) != "unsupported":
                out.append((name, k, "descriptor-shared-with", None, seen[id(dv)]))
            seen.setdefault(id(dv), k)
    return out


def selftest():
    t = table()
    assert len(t) >= 380 and entry("STATUS", "severity")["tokens"] == ["INFO", "WARN", "ERROR"], entry("STATUS", "severity")
    assert entry("BANKACCTFROM", "bankid")["length"] == 9 and entry("STMTTRN", "trnamt")["type"] == "Decimal"
    g = gold("STATUS", "code")
    assert type(g).__name__ == "Integer" and g.length == 6 and g.required
    return True
