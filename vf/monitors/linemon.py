"""sys.monitoring (3.12) LINE-event instrumentation restricted to ofxtools code objects.

Modes (combinable):
  * count  - count line events and CROSS-THREAD SWITCHES observed between consecutive
             events inside ofxtools code (evidence of interleavings that really occurred),
             with the set of (function -> function) switch edges;
  * yield  - with probability p call time.sleep(0) at a line (forced thread switch);
  * failpoint - call a user function at the k-th event inside a named function
             (os._exit there = a crash point; raise = an injected fault).
Nothing is installed in the repository; the tool id is released by stop().
"""
import os
import random
import sys
import threading
import time

TOOL = 3  # any free id 0..5


class LineMon:
    def __init__(self, repo_root, p_yield=0.0, seed=0, failpoint=None, only_files=None):
        self.prefix = os.path.join(os.path.realpath(repo_root), "ofxtools") + os.sep
        self.only_files = tuple(only_files) if only_files else None  # e.g. ("Client.py",): cheaper, targeted
        self.p = p_yield
        self.rng = random.Random(seed)
        self.events = 0
        self.switches = 0
        self.edges = set()
        self.yields = 0
        self._last = (None, None)
        self._lock = threading.Lock()
        self.failpoint = failpoint  # (function name, k, callable)
        self._fp_count = 0

    def _line(self, code, lineno):
        if not code.co_filename.startswith(self.prefix):
            return sys.monitoring.DISABLE
        if self.only_files and not code.co_filename.endswith(self.only_files):
            return sys.monitoring.DISABLE
        tid = threading.get_ident()
        with self._lock:
            self.events += 1
            lt, lf = self._last
            if lt is not None and lt != tid:
                self.switches += 1
                if len(self.edges) < 5000:
                    self.edges.add((lf, code.co_name))
            self._last = (tid, code.co_name)
            do_yield = self.p and self.rng.random() < self.p
            fp = None
            if self.failpoint and code.co_name == self.failpoint[0]:
                self._fp_count += 1
                if self._fp_count == self.failpoint[1]:
                    fp = self.failpoint[2]
        if fp is not None:
            fp(code, lineno)
        if do_yield:
            self.yields += 1
            time.sleep(0)

    def start(self):
        m = sys.monitoring
        m.use_tool_id(TOOL, "vf-linemon")
        m.register_callback(TOOL, m.events.LINE, self._line)
        m.set_events(TOOL, m.events.LINE)
        return self

    def stop(self):
        m = sys.monitoring
        m.set_events(TOOL, 0)
        m.register_callback(TOOL, m.events.LINE, None)
        m.free_tool_id(TOOL)
        m.restart_events()

    def __enter__(self):
        return self.start()

    def __exit__(self, *a):
        self.stop()
