"""sys.addaudithook-based recorder of network and file events - the Python analogue
of a syscall sanitizer.  An audit hook cannot be removed, so it is installed once per
process and switched with `enabled`.  Thread-safe; events carry a monotonic sequence.
"""
import sys
import threading

NET = ("urllib.Request", "socket.connect", "socket.getaddrinfo", "socket.gethostbyname", "socket.sendto", "socket.bind",
       "http.client.connect", "http.client.send", "ftplib.connect", "smtplib.connect")
FILES = ("open", "os.rename", "os.remove", "os.mkdir", "os.rmdir", "os.truncate", "shutil.move", "shutil.copyfile", "tempfile.mkstemp")


class Audit:
    def __init__(self):
        self.lock = threading.Lock()
        self.events = []
        self.enabled = False
        self.watch = set(NET) | set(FILES)
        self._installed = False

    def _hook(self, event, args):
        if not self.enabled or event not in self.watch:
            return
        try:
            brief = tuple(a if isinstance(a, (str, int, bytes, type(None))) else repr(a)[:120] for a in args[:4])
        except Exception:
            brief = ()
        with self.lock:
            self.events.append((len(self.events), event, brief, threading.get_ident()))

    def install(self):
        if not self._installed:
            sys.addaudithook(self._hook)
            self._installed = True
        return self

    def mark(self):
        with self.lock:
            return len(self.events)

    def since(self, mark, kinds=None):
        with self.lock:
            ev = self.events[mark:]
        if kinds is not None:
            ev = [e for e in ev if e[1] in kinds]
        return ev


AUDIT = Audit()
