"""Online monitors attached from the harness to the real ofxtools functions
(attribute patching - no repository edit).  Each monitor counts its
evaluations; zero evaluations means the deciding monitor never ran.

* init post-condition  (C04): every instance that Aggregate.__init__ returns
  satisfies every declared constraint of its class (independent validator).
* to_etree post-condition (C11): every data element written is lexically valid
  for its declared type.
"""
import functools
import threading

from vf.oracles import ref_decl, ref_types, ref_validate

_lock = threading.Lock()
_installed = {}


def _wrap(owner, name, post, label):
    """Replace owner.name by a wrapper calling post(result, args, kwargs) after a normal return."""
    key = (owner, name)
    if key in _installed:
        return
    orig = owner.__dict__[name]
    fn = orig.__func__ if isinstance(orig, (classmethod, staticmethod)) else orig

    @functools.wraps(fn)
    def wrapper(*args, **kwargs):
        result = fn(*args, **kwargs)
        try:
            post(result, args, kwargs)
        except _MonitorBug:
            raise
        except Exception as e:  # a monitor must never change what it observes
            _state["monitor_errors"].append(f"{label}: {type(e).__name__}: {e}")
        return result

    if isinstance(orig, classmethod):
        setattr(owner, name, classmethod(wrapper))
    elif isinstance(orig, staticmethod):
        setattr(owner, name, staticmethod(wrapper))
    else:
        setattr(owner, name, wrapper)
    _installed[key] = orig


class _MonitorBug(Exception):
    pass


_state = {"ctx": None, "monitor_errors": [], "init_calls": 0, "to_etree_calls": 0, "leaves_checked": 0}


def set_ctx(ctx):
    _state["ctx"] = ctx


def flush(ctx):
    """Copy counters into the shard report."""
    ctx.count("monitor_init_postcondition_calls", _state["init_calls"])
    ctx.count("monitor_to_etree_postcondition_calls", _state["to_etree_calls"])
    ctx.count("monitor_to_etree_leaves_checked", _state["leaves_checked"])
    _state["init_calls"] = _state["to_etree_calls"] = _state["leaves_checked"] = 0
    for e in _state["monitor_errors"][:5]:
        ctx.inconclusive_because("monitor raised: " + e)
    _state["monitor_errors"].clear()


def _problem_kind(p):
    for needle, kind in (("required child missing", "required-missing"), ("at-most-one group", "at-most-one-group"),
                         ("exactly-one group", "exactly-one-group"), ("not in enumeration", "enumeration"),
                         ("exceeds limit", "string-length"), ("digits", "integer-digits"), ("not a permitted list member", "list-member-type"),
                         ("is not", "sub-aggregate-type"), ("holds", "value-type")):
        if needle in p:
            return kind
    return "other"


def _case(ctx, extra):
    """The replay case of a monitor violation: the case the check was working on (so that a replay re-runs it), plus what the monitor saw."""
    cur = getattr(ctx, "current_case", None)
    return dict(cur, monitor=extra) if isinstance(cur, dict) else extra


def _not_held(inst, kwargs):
    """Keyword arguments naming declared children that the new instance does not hold under that very name."""
    cls = type(inst)
    if "__init__" in vars(cls) or any("__init__" in vars(b) for b in cls.__mro__[:-1] if b.__name__ not in ("Aggregate", "list", "object") and "__init__" in vars(b)):
        return []  # classes with a constructor of their own may rename or derive arguments
    d = ref_decl.decl(cls)
    out = []
    for k, v in kwargs.items():
        t = d.get(k)
        if t is None or v is None:
            continue
        kind = ref_decl.kind_of(t)
        have = inst.__dict__.get(k)
        if kind == "sub":
            if have is not v:
                out.append((k, v, have))
        elif kind == "elem":
            try:
                want = t.convert(v)
            except Exception:  # noqa: would have been refused
                continue
            if want is None and have is None:
                continue
            if type(have) is not type(want) or (have != want and repr(have) != repr(want)):  # repr: NaN != NaN
                out.append((k, v, have))
    return out


def install_init_monitor(prop="C04"):
    from ofxtools.models.base import Aggregate

    def post(result, args, kwargs):
        inst = args[0]
        with _lock:
            _state["init_calls"] += 1
        probs = ref_validate.check(inst, deep=False)
        lost = _not_held(inst, kwargs)
        if lost:
            ctx = _state["ctx"]
            if ctx is not None:
                ctx.violation(f"instance-does-not-hold-what-it-was-given/{type(inst).__name__}.{lost[0][0]}",
                              f"{type(inst).__name__}(**kwargs) returned normally but {lost[:3]} (attribute, given, stored)",
                              _case(ctx, {"op": "init-postcondition", "cls": type(inst).__name__, "lost": [list(map(repr, x)) for x in lost[:5]], "kwargs": sorted(kwargs)}))
        if probs:
            ctx = _state["ctx"]
            if ctx is not None:
                ctx.violation(f"instance-exists-violating/{_problem_kind(probs[0])}",
                              f"{type(inst).__name__}() returned an instance violating its class: {probs[:3]}",
                              {"op": "init-postcondition", "cls": type(inst).__name__, "problems": probs[:5],
                               "kwargs": sorted(kwargs), "members": [type(a).__name__ for a in args[1:]]})

    _wrap(Aggregate, "__init__", post, "init-post")


def lexical_problem(T, t, text):
    if not isinstance(text, str):
        return f"text is {type(text).__name__}"
    if isinstance(t, T.ListElement):
        t = t.converter
    if isinstance(t, T.Bool):
        return None if text in ("Y", "N") else "not Y/N"
    if isinstance(t, T.OneOf):
        return None if text in t.valid else "not a declared token"
    if isinstance(t, T.NagString):
        return None
    if isinstance(t, T.String):
        return None if (t.length is None or len(text) <= t.length) else f"{len(text)} chars exceed limit {t.length}"
    if isinstance(t, T.Integer):
        return None if ref_types.int_lexical_ok(text) else "not [+-]digits"
    if isinstance(t, T.Decimal):
        return None if ref_types.decimal_lexical_ok(text) else "not plain decimal notation"
    if isinstance(t, T.Time):
        return None if ref_types.written_datetime_ok(text, with_date=False) else "not HHMMSS.XXX[offset:name]"
    if isinstance(t, T.DateTime):
        return None if ref_types.written_datetime_ok(text) else "not YYYYMMDDHHMMSS.XXX[offset:name]"
    return None


def install_to_etree_monitor(prop="C11"):
    from ofxtools import Types as T
    from ofxtools.models.base import Aggregate

    def post(result, args, kwargs):
        inst = args[0]
        with _lock:
            _state["to_etree_calls"] += 1
        cls = type(inst)
        d = ref_decl.decl(cls)
        bytag = {ref_decl.tag_of(cls, k): t for k, t in d.items() if ref_decl.kind_of(t) in ("elem", "listelem")}
        n = 0
        for child in result:
            t = bytag.get(child.tag)
            if t is None or len(child):
                continue
            n += 1
            prob = lexical_problem(T, t, child.text)
            if prob:
                ctx = _state["ctx"]
                if ctx is not None:
                    tn = type(t.converter if isinstance(t, T.ListElement) else t).__name__
                    ctx.violation(f"to_etree/{tn}/{prob.split(' exceed')[0] if 'exceed' in prob else prob}",
                                  f"{cls.__name__}.to_etree() wrote <{child.tag}>{child.text!r}: {prob}",
                                  {"op": "to_etree-postcondition", "cls": cls.__name__, "tag": child.tag, "text": repr(child.text)})
        with _lock:
            _state["leaves_checked"] += n

    _wrap(Aggregate, "to_etree", post, "to_etree-post")
