"""Per-shard context: seeded RNG, counters, distinct-case set, samples, violations.

A check's ``run_shard(ctx)`` reports everything through this object; the driver
merges the per-shard JSON files.  Nothing here imports ofxtools.
"""
import os
import sys
import hashlib
import json
import random
import time
import traceback


def fp(obj) -> str:
    """Short stable fingerprint of a case (for counting distinct cases)."""
    if not isinstance(obj, (bytes, bytearray)):
        obj = repr(obj).encode("utf-8", "backslashreplace")
    return hashlib.blake2b(obj, digest_size=8).hexdigest()


def jsonable(obj, depth=0):
    """Best-effort conversion of a case description to JSON-compatible data."""
    if depth > 8:
        return repr(obj)[:200]
    if obj is None or isinstance(obj, (bool, int, float, str)):
        return obj
    if isinstance(obj, (bytes, bytearray)):
        try:
            return {"bytes": bytes(obj).decode("utf-8")}
        except UnicodeDecodeError:
            return {"bytes_latin1": bytes(obj).decode("latin_1")}
    if isinstance(obj, dict):
        return {str(k): jsonable(v, depth + 1) for k, v in obj.items()}
    if isinstance(obj, (list, tuple, set, frozenset)):
        return [jsonable(v, depth + 1) for v in obj]
    return repr(obj)[:400]


class Ctx:
    MAX_SAMPLES = 6
    MAX_VIOLATION_CASES_PER_KEY = 3
    MAX_DISTINCT_HASHES = 400_000

    def __init__(self, prop, tier, seed, shard, nshards, scratch, replay_case=None):
        self.prop = prop
        self.tier = tier
        self.seed = seed
        self.shard = shard
        self.nshards = nshards
        self.scratch = scratch
        self.replay_case = replay_case
        self.rng = random.Random(f"{prop}/{seed}/{shard}")
        self.evaluations = 0
        self._distinct = set()
        self.distinct_by_construction = 0
        self.samples = []
        self.violations = {}  # key -> {"count": n, "msg": str, "cases": [...]}
        self.counters = {}  # free-form named counters (summed over shards)
        self.sets = {}  # free-form named small sets (unioned over shards)
        self.notes = []
        self.inconclusive = []
        self.t0 = time.time()
        self.deadline = None

    # -- budget -----------------------------------------------------------
    def time_left(self):
        if self.deadline is None:
            return 1e9
        return self.deadline - time.time()

    # -- bookkeeping ------------------------------------------------------
    def ev(self, n=1):
        self.evaluations += n

    def distinct(self, case):
        """Register a non-trivial case (by fingerprint)."""
        if len(self._distinct) < self.MAX_DISTINCT_HASHES:
            self._distinct.add(case if isinstance(case, str) and len(case) == 16 else fp(case))
        else:
            # beyond the cap count nothing more: conservative
            pass

    def distinct_enum(self, n):
        """n cases distinct by construction (disjoint enumeration across shards)."""
        self.distinct_by_construction += n

    def sample(self, case):
        if len(self.samples) < self.MAX_SAMPLES:
            self.samples.append(jsonable(case))

    def count(self, name, n=1):
        self.counters[name] = self.counters.get(name, 0) + n

    def add(self, name, item):
        s = self.sets.setdefault(name, set())
        if len(s) < 5000:
            s.add(item)

    def note(self, text):
        if len(self.notes) < 20:
            self.notes.append(text)

    def violation(self, key, msg, case):
        """Record a violation.  ``key`` is a mechanism signature (stable, no
        random values); ``case`` must be enough to replay."""
        extra = getattr(self, "case_extra", None)
        if extra and isinstance(case, dict):
            case = {**case, **extra}  # what the shard did before its first case and a replay has to do again
        v = self.violations.setdefault(key, {"count": 0, "msg": str(msg)[:1000], "cases": []})
        v["count"] += 1
        if len(v["cases"]) < self.MAX_VIOLATION_CASES_PER_KEY:
            v["cases"].append(jsonable(case))

    def inconclusive_because(self, reason):
        if len(self.inconclusive) < 10:
            self.inconclusive.append(str(reason)[:500])

    # -- output -----------------------------------------------------------
    def dump(self, path, error=None):
        out = {
            "prop": self.prop,
            "shard": self.shard,
            "host_tz": getattr(self, "host_tz", None),
            "hash_seed": os.environ.get("PYTHONHASHSEED"),
            "optimize": bool(sys.flags.optimize),
            "no_cet": os.environ.get("VF_NO_CET") == "1",
            "evaluations": self.evaluations,
            "distinct": sorted(self._distinct),
            "distinct_by_construction": self.distinct_by_construction,
            "samples": self.samples,
            "violations": self.violations,
            "counters": self.counters,
            "sets": {k: sorted(map(str, v)) for k, v in self.sets.items()},
            "notes": self.notes,
            "inconclusive": self.inconclusive,
            "wall_s": round(time.time() - self.t0, 3),
            "error": error,
        }
        with open(path, "w") as f:
            json.dump(out, f)


def format_exc():
    return traceback.format_exc()[-3000:]
