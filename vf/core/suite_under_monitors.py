"""Run the repository's own test suite under the online monitors (second, independent workload)
and fold what the monitors saw into a shard's report."""
import glob
import json
import os
import subprocess
import sys


def run(ctx, prefix, keys_startswith):
    repo = os.environ.get("VF_REPO", "/repo")
    out = os.path.join(ctx.scratch, "suite_out")
    env = dict(os.environ, VF_SUITE_OUT=out)
    cmd = [sys.executable, "-m", "pytest", "-q", "-p", "no:cacheprovider", "-p", "vf.pytest_monitors", "-n", "6", "tests"]
    try:
        p = subprocess.run(cmd, cwd=repo, env=env, stdout=subprocess.PIPE, stderr=subprocess.STDOUT, timeout=max(120, ctx.time_left() - 30))
    except subprocess.TimeoutExpired:
        ctx.inconclusive_because("repository suite under monitors timed out")
        return
    tail = p.stdout.decode("utf_8", "replace").strip().splitlines()[-1:] or [""]
    ctx.note(f"repository suite under monitors: {tail[0][:120]}")
    files = glob.glob(os.path.join(out, "*.json"))
    if not files:
        ctx.inconclusive_because(f"repository suite under monitors produced no report: {tail[0][:200]}")
        return
    for f in files:
        d = json.load(open(f))
        for k, v in d["counters"].items():
            ctx.count("suite_" + k, v)
        for k, v in d["violations"].items():
            if k.startswith(keys_startswith):
                for case in v["cases"][:1] or [{}]:
                    ctx.violation(f"{prefix}/{k}", "[during the repository's own test suite] " + v["msg"], dict(case, during="repository suite"))
    ctx.count("suite_runs")
