"""Hostile predecessors: broken inputs handed to the library right before a judged input.

None of these is judged itself (each is refused, or not - that is other checks'
business).  They exist because "the same input gives the same result" has to hold
after a failure too: state left behind by an abandoned parse, a half-fed builder
still alive, an exception raised half-way through a conversion.

    hostile_history.disturb(rng)                       # run one; HISTORY lists all so far (store a copy in the replay case)
    hostile_history.replay_history(case["history"])    # replay: the same ones again, in order
"""
import io

V1 = ("OFXHEADER:100\r\nDATA:OFXSGML\r\nVERSION:102\r\nSECURITY:NONE\r\nENCODING:USASCII\r\nCHARSET:NONE\r\nCOMPRESSION:NONE\r\n"
      "OLDFILEUID:NONE\r\nNEWFILEUID:NONE\r\n\r\n")
V2 = '<?xml version="1.0" encoding="UTF-8"?>\r\n<?OFX OFXHEADER="200" VERSION="220" SECURITY="NONE" OLDFILEUID="NONE" NEWFILEUID="NONE"?>\r\n'
SON = "<SIGNONMSGSRSV1><SONRS><STATUS><CODE>0</CODE><SEVERITY>INFO</SEVERITY></STATUS><DTSERVER>20200101</DTSERVER><LANGUAGE>ENG</LANGUAGE></SONRS></SIGNONMSGSRSV1>"

# headers the broken bodies come with: plain v2 / v1, and v1 headers whose ENCODING and CHARSET contradict each other (what such a
# file decodes to is nobody's business here - but it must not change how LATER files with ordinary headers are read)
HEADERS = [V2, V1, V1.replace("ENCODING:USASCII", "ENCODING:UNICODE").replace("CHARSET:NONE", "CHARSET:1252"),
           V1.replace("ENCODING:USASCII", "ENCODING:UTF-8").replace("CHARSET:NONE", "CHARSET:ISO-8859-1"),
           V1.replace("ENCODING:USASCII", "ENCODING:UNICODE").replace("CHARSET:NONE", "CHARSET:ISO-8859-1")]

BODIES = [
    "<OFX><SIGNONMSGSRSV1><SONRS><STATUS><CODE>0",                                  # truncated: four elements left open
    "<OFX>" + SON + "<BANKMSGSRSV1><STMTTRNRS><TRNUID>1</TRNUID></STMTRS></BANKMSGSRSV1></OFX>",  # end tag of something never opened
    "<OFX><A><B>1</A></B></OFX>",                                                  # crossed end tags
    "<OFX>" + SON + "</OFX><OFX>",                                                 # second root left open
    "</OFX>",                                                                      # end tag first
    "<OFX><MEMO><![CDATA[never closed</MEMO></OFX>",
    "<OFX>" + SON.replace("<CODE>0</CODE>", "<CODE>zero</CODE>") + "</OFX>",        # well-formed, refused by the model
    "<OFX>" + SON.replace("<SEVERITY>INFO</SEVERITY>", "") + "</OFX>",              # required child missing
    "<OFX>" + SON.replace("20200101", "2020-01-01T00:00") + "</OFX>",               # not an OFX date
    "<OFX><NOSUCHMSGSRSV1><X>1</X></NOSUCHMSGSRSV1></OFX>",
    # well-formed and valid, but carrying <OFXEXTENSION> in the sign-on (where the models list it as unsupported) - the same tag
    # is a real child of every transaction wrapper
    "<OFX>" + SON.replace("</SONRS>", "<OFXEXTENSION><OFXEXTPROPERTIES><X>1</X></OFXEXTPROPERTIES></OFXEXTENSION></SONRS>") + "</OFX>",
    "",
    "text only, no tags",
    "<OFX>" + SON.replace("ENG", "caf\u00e9") + "</OFX>",                              # non-ASCII under whatever the header claims
]


def _quiet(fn):
    try:
        return fn()
    except BaseException as e:  # noqa: nothing about the broken input is judged
        if isinstance(e, (KeyboardInterrupt, SystemExit, MemoryError)):
            raise
        return None


def disturb(rng, idx=None):
    """Hand one broken document to the tokenizer, the file parser and the converter; leave one half-fed builder alive."""
    from ofxtools.Parser import OFXTree, TreeBuilder

    if idx is None:
        idx = rng.randrange(len(BODIES) * len(HEADERS))
    body = BODIES[idx % len(BODIES)]
    hdr = HEADERS[(idx // len(BODIES)) % len(HEADERS)]

    def tokenizer():
        b = TreeBuilder()
        b.feed(body)
        return b.close()

    def file_parser():
        t = OFXTree()
        t.parse(io.BytesIO((hdr + body).encode("utf_8")))
        return t.convert()

    def lookalikes():
        # values as other toolkits spell them (xs:boolean, lower-case tokens, signed numbers, ISO dates): refused or not, reading one
        # must not teach the converters anything they then use when writing
        import xml.etree.ElementTree as ET
        from ofxtools import Types as T
        from ofxtools.models.base import Aggregate

        for conv, texts in ((T.Bool(), ("TRUE", "FALSE", "true", "false", "1", "0", "yes", "no", "T", "F")), (T.OneOf("INFO", "WARN"), ("info", "Warn", "ERROR")),
                            (T.Integer(3), ("+1", "1.0", "0x1", " 7")), (T.Decimal(2), ("1.234,5", "1e3", "$5")), (T.DateTime(), ("2020-01-01", "2020-01-01T00:00:00Z")),
                            (T.Time(), ("12:00:00",)), (T.String(3), ("toolong",))):
            for t in texts:
                _quiet(lambda: conv.convert(t))
        for t in ("TRUE", "FALSE", "true", "1"):
            e = ET.Element("INCTRAN")
            ET.SubElement(e, "INCLUDE").text = t
            _quiet(lambda: Aggregate.from_etree(e))

    HISTORY.append(idx)
    _quiet(tokenizer)
    _quiet(file_parser)
    _quiet(lookalikes)
    # a builder abandoned in the middle of a document, kept alive while the judged input is processed
    global _ABANDONED
    _ABANDONED = _quiet(lambda: _half_fed(TreeBuilder))
    return idx


_ABANDONED = None
HISTORY = []  # every broken input this process has been handed so far (a replay case carries a copy)


def replay_history(history):
    for idx in history or []:
        disturb(None, idx)


def _half_fed(TreeBuilder):
    b = TreeBuilder()
    b.feed("<OFX><SIGNONMSGSRSV1><SONRS><STATUS>")
    return b
