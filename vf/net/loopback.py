"""A real HTTP server on 127.0.0.1 (ephemeral port) with the same handler interface as
FakeNet: what is recorded here is what http.client really put on the wire."""
import http.server
import threading
import time

from vf.net.fakehttp import Reply


class LoopbackNet:
    def __init__(self):
        self.lock = threading.Lock()
        self.records = []
        self.seq = 0
        self.handler = None
        self.tls = threading.local()
        self.current_client = None  # single-threaded scenarios tag requests through this
        net = self

        class H(http.server.BaseHTTPRequestHandler):
            protocol_version = "HTTP/1.0"

            def log_message(self, *a):
                pass

            def do_any(self):
                n = int(self.headers.get("Content-Length") or 0)
                body = self.rfile.read(n) if n else b""
                with net.lock:
                    net.seq += 1
                    rec = {"seq": net.seq, "t": time.monotonic(), "client": net.current_client, "url": f"http://127.0.0.1:{net.port}{self.path}",
                           "host": self.headers.get("Host"), "method": self.command, "headers": {k.lower(): v for k, v in self.headers.items()}, "body": body}
                    net.records.append(rec)
                reply = net.handler(rec) if net.handler else Reply(b"")
                if reply.exc is not None:
                    self.connection.close()  # transport failure: drop the connection without answering
                    return
                self.send_response(reply.status)
                self.send_header("Content-Type", "application/x-ofx")
                self.send_header("Content-Length", str(len(reply.body)))
                for k, v in reply.headers:
                    self.send_header(k, v)
                self.end_headers()
                self.wfile.write(reply.body)
                with net.lock:
                    rec["replied"] = {"status": reply.status, "set_cookie": [v for k, v in reply.headers if k.lower() == "set-cookie"], "len": len(reply.body)}

            do_POST = do_GET = do_PUT = do_HEAD = do_any

        self.server = http.server.ThreadingHTTPServer(("127.0.0.1", 0), H)
        self.server.daemon_threads = True
        self.port = self.server.server_address[1]
        self.thread = threading.Thread(target=self.server.serve_forever, daemon=True)

    def install(self):
        self.thread.start()
        return self

    def remove(self):
        self.server.shutdown()
        self.server.server_close()

    def set_client(self, tag):
        self.current_client = tag

    def base(self):
        return f"http://127.0.0.1:{self.port}"
