"""In-process fake HTTP(S) server installed UNDER urllib's opener.

Only HTTPHandler.http_open / HTTPSHandler.https_open are replaced: OpenerDirector,
HTTPCookieProcessor, the request pre-processors (Host, Content-Length, Content-Type)
and the error processor stay real, so cookie handling and headers are what the
library + urllib really produce.  Every request is recorded.
"""
import email
import http.client
import io
import threading
import time
import urllib.error
import urllib.request
import urllib.response


class Reply:
    def __init__(self, body=b"", status=200, headers=(), delay=0.0, exc=None):
        self.body, self.status, self.headers, self.delay, self.exc = body, status, list(headers), delay, exc


class FakeNet:
    def __init__(self):
        self.lock = threading.Lock()
        self.records = []
        self.seq = 0
        self.handler = None  # callable(record) -> Reply
        self.tls = threading.local()
        self._orig = None

    # ---- install / remove
    def install(self):
        if self._orig is None:
            self._orig = (urllib.request.HTTPHandler.http_open, urllib.request.HTTPSHandler.https_open)
            net = self
            urllib.request.HTTPHandler.http_open = lambda h, req: net._open(req)
            urllib.request.HTTPSHandler.https_open = lambda h, req: net._open(req)
        return self

    def remove(self):
        if self._orig is not None:
            urllib.request.HTTPHandler.http_open, urllib.request.HTTPSHandler.https_open = self._orig
            self._orig = None

    def set_client(self, tag):
        self.tls.client = tag

    # ---- the "wire"
    def _open(self, req):
        with self.lock:
            self.seq += 1
            rec = {
                "seq": self.seq, "t": time.monotonic(), "client": getattr(self.tls, "client", None), "thread": threading.get_ident(),
                "url": req.full_url, "host": req.host, "method": req.get_method(),
                "headers": {k.lower(): v for k, v in req.header_items()}, "body": req.data, "timeout": getattr(req, "timeout", None),
            }
            self.records.append(rec)
        reply = self.handler(rec) if self.handler else Reply(b"")
        if reply.delay:
            time.sleep(reply.delay)
        if reply.exc is not None:
            raise reply.exc
        hdrs = [("Content-Type", "application/x-ofx"), ("Content-Length", str(len(reply.body)))] + reply.headers
        msg = email.message_from_string("".join(f"{k}: {v}\r\n" for k, v in hdrs) + "\r\n", _class=http.client.HTTPMessage)
        resp = urllib.response.addinfourl(io.BytesIO(reply.body), msg, req.full_url, reply.status)
        resp.msg = "OK" if reply.status == 200 else "ERR"
        with self.lock:
            rec["replied"] = {"status": reply.status, "set_cookie": [v for k, v in reply.headers if k.lower() == "set-cookie"], "len": len(reply.body)}
        return resp


def transport_error():
    return urllib.error.URLError(ConnectionRefusedError(111, "Connection refused (injected)"))
