"""Hand-written OFX server responses (templates frozen from spec-conforming text;
nothing here calls ofxtools, so a changed library cannot change what the fake
server says)."""

V2HDR = '<?xml version="1.0" encoding="UTF-8" standalone="no"?>\r\n<?OFX OFXHEADER="200" VERSION="203" SECURITY="NONE" OLDFILEUID="NONE" NEWFILEUID="NONE"?>\r\n'
V1HDR = "OFXHEADER:100\r\nDATA:OFXSGML\r\nVERSION:102\r\nSECURITY:NONE\r\nENCODING:USASCII\r\nCHARSET:NONE\r\nCOMPRESSION:NONE\r\nOLDFILEUID:NONE\r\nNEWFILEUID:NONE\r\n\r\n"

SONRS = ("<SIGNONMSGSRSV1><SONRS><STATUS><CODE>0</CODE><SEVERITY>INFO</SEVERITY></STATUS><DTSERVER>20200101000000.000[+0:UTC]</DTSERVER>"
         "<LANGUAGE>ENG</LANGUAGE></SONRS></SIGNONMSGSRSV1>")


def _core(url):
    return ("<MSGSETCORE><VER>1</VER><URL>%s</URL><OFXSEC>NONE</OFXSEC><TRANSPSEC>Y</TRANSPSEC><SIGNONREALM>R</SIGNONREALM><LANGUAGE>ENG</LANGUAGE>"
            "<SYNCMODE>LITE</SYNCMODE><REFRESHSUPT>N</REFRESHSUPT><RESPFILEER>N</RESPFILEER><SPNAME>SP</SPNAME></MSGSETCORE>" % url)


def profrs(dtprofup, service_url, profile_url, finame="FI", extra=""):
    """PROFRS aggregate; dtprofup is OFX date-time text; extra = filler to vary the length.
    service_url: one URL for all statement message sets, or a dict {"bank": url|None, "cc": url|None, "inv": url|None}
    (None = that message set is not advertised at all)."""
    if not isinstance(service_url, dict):
        service_url = {"bank": service_url, "cc": service_url, "inv": service_url}
    sets = "<SIGNONMSGSET><SIGNONMSGSETV1>%s</SIGNONMSGSETV1></SIGNONMSGSET>" % _core(profile_url)
    if service_url.get("bank"):
        sets += ("<BANKMSGSET><BANKMSGSETV1>%s<INVALIDACCTTYPE>CD</INVALIDACCTTYPE><CLOSINGAVAIL>Y</CLOSINGAVAIL><EMAILPROF><CANEMAIL>N</CANEMAIL>"
                 "<CANNOTIFY>N</CANNOTIFY></EMAILPROF></BANKMSGSETV1></BANKMSGSET>" % _core(service_url["bank"]))
    if service_url.get("cc"):
        sets += "<CREDITCARDMSGSET><CREDITCARDMSGSETV1>%s<CLOSINGAVAIL>Y</CLOSINGAVAIL></CREDITCARDMSGSETV1></CREDITCARDMSGSET>" % _core(service_url["cc"])
    if service_url.get("inv"):
        sets += ("<INVSTMTMSGSET><INVSTMTMSGSETV1>%s<TRANDNLD>Y</TRANDNLD><OODNLD>N</OODNLD><POSDNLD>Y</POSDNLD><BALDNLD>Y</BALDNLD><CANEMAIL>N</CANEMAIL>"
                 "</INVSTMTMSGSETV1></INVSTMTMSGSET>" % _core(service_url["inv"]))
    sets += "<PROFMSGSET><PROFMSGSETV1>%s</PROFMSGSETV1></PROFMSGSET>" % _core(profile_url)
    return ("<PROFRS><MSGSETLIST>" + sets +
            "</MSGSETLIST><SIGNONINFOLIST><SIGNONINFO><SIGNONREALM>R</SIGNONREALM><MIN>4</MIN><MAX>32</MAX><CHARTYPE>ALPHAORNUMERIC</CHARTYPE>"
            "<CASESEN>Y</CASESEN><SPECIAL>Y</SPECIAL><SPACES>N</SPACES><PINCH>N</PINCH></SIGNONINFO></SIGNONINFOLIST>"
            "<DTPROFUP>%s</DTPROFUP><FINAME>%s</FINAME><ADDR1>1 Main St</ADDR1><CITY>C</CITY><STATE>NY</STATE><POSTALCODE>1</POSTALCODE><COUNTRY>USA</COUNTRY>%s</PROFRS>"
            % (dtprofup, finame, ("<INTU.FILLER>%s</INTU.FILLER>" % extra) if extra else ""))


def profile_ok(dtprofup, service_url, profile_url, finame="FI", trnuid="1", extra="", v1=False, pretty=False):
    body = ("<OFX>" + SONRS + "<PROFMSGSRSV1><PROFTRNRS><TRNUID>%s</TRNUID><STATUS><CODE>0</CODE><SEVERITY>INFO</SEVERITY></STATUS>%s</PROFTRNRS></PROFMSGSRSV1></OFX>"
            % (trnuid, profrs(dtprofup, service_url, profile_url, finame, extra)))
    if pretty:
        body = body.replace("><", ">\r\n<")
    return ((V1HDR if v1 else V2HDR) + body).encode("utf_8")


INVALID_KINDS = ["finame-too-long", "no-postalcode", "bad-country", "bad-enum", "date-not-a-date", "unknown-required-missing"]


def profile_invalid(kind, *a, **kw):
    """A well-formed answer with status 0 that is NOT a profile by the OFX data model (one defect, named by kind)."""
    b = profile_ok(*a, **kw).decode("utf_8")
    n = len(b)
    if kind == "finame-too-long":
        b = b.replace("<FINAME>", "<FINAME>" + "F" * 40)
    elif kind == "no-postalcode":
        b = b.replace("<POSTALCODE>1</POSTALCODE>", "")
    elif kind == "bad-country":
        b = b.replace("<COUNTRY>USA<", "<COUNTRY>USAX<")
    elif kind == "bad-enum":
        b = b.replace("<CHARTYPE>ALPHAORNUMERIC<", "<CHARTYPE>RUNES<")
    elif kind == "date-not-a-date":
        b = b.replace("<DTSERVER>2020", "<DTSERVER>20x0")
    else:
        b = b.replace("<SIGNONREALM>R</SIGNONREALM><MIN>4</MIN>", "<MIN>4</MIN>")
    assert len(b) != n, kind
    return b.encode("utf_8")


def profile_uptodate(trnuid="1", v1=False):
    body = ("<OFX>" + SONRS + "<PROFMSGSRSV1><PROFTRNRS><TRNUID>%s</TRNUID><STATUS><CODE>1</CODE><SEVERITY>INFO</SEVERITY>"
            "<MESSAGE>Client is up to date</MESSAGE></STATUS></PROFTRNRS></PROFMSGSRSV1></OFX>" % trnuid)
    return ((V1HDR if v1 else V2HDR) + body).encode("utf_8")


def profile_error(code=2000, trnuid="1"):
    body = ("<OFX>" + SONRS + "<PROFMSGSRSV1><PROFTRNRS><TRNUID>%s</TRNUID><STATUS><CODE>%d</CODE><SEVERITY>ERROR</SEVERITY>"
            "<MESSAGE>General error</MESSAGE></STATUS></PROFTRNRS></PROFMSGSRSV1></OFX>" % (trnuid, code))
    return (V2HDR + body).encode("utf_8")


GARBAGE = [b"", b"<html><body>Service unavailable</body></html>", b"OFXHEADER:100\r\nDATA:OFXSGML\r\nVERSION:102\r\n", V2HDR.encode() + b"<OFX><SIGNONMSGSRSV1><SONRS><STATUS><CODE>0",
           V2HDR.encode() + b"<OFX></OFX>", b"\xff\xfe\x00garbage", V2HDR.encode() + ("<OFX>" + SONRS + "</OFX>").encode()]


def statement_ok():
    body = ("<OFX>" + SONRS + "<BANKMSGSRSV1><STMTTRNRS><TRNUID>1</TRNUID><STATUS><CODE>0</CODE><SEVERITY>INFO</SEVERITY></STATUS></STMTTRNRS></BANKMSGSRSV1></OFX>")
    return (V2HDR + body).encode("utf_8")


def acctinfo_ok(accounts, dtacctup="20200101000000.000[+0:UTC]", groups=1):
    """accounts: list of dicts {kind: bank|cc|inv|bp, acctid, status, accttype?, bankid?, brokerid?}; split over `groups` ACCTINFO aggregates
    (an ACCTINFO holds at most one *ACCTINFO of each kind)."""
    infos = []
    for a in accounts:
        k = a["kind"]
        if k == "bank":
            x = ("<BANKACCTINFO><BANKACCTFROM><BANKID>%s</BANKID><ACCTID>%s</ACCTID><ACCTTYPE>%s</ACCTTYPE></BANKACCTFROM><SUPTXDL>%s</SUPTXDL><XFERSRC>N</XFERSRC>"
                 "<XFERDEST>N</XFERDEST><SVCSTATUS>%s</SVCSTATUS></BANKACCTINFO>" % (a["bankid"], a["acctid"], a["accttype"], a.get("suptxdl", "Y"), a["status"]))
        elif k == "cc":
            x = ("<CCACCTINFO><CCACCTFROM><ACCTID>%s</ACCTID></CCACCTFROM><SUPTXDL>%s</SUPTXDL><XFERSRC>N</XFERSRC><XFERDEST>N</XFERDEST><SVCSTATUS>%s</SVCSTATUS></CCACCTINFO>"
                 % (a["acctid"], a.get("suptxdl", "Y"), a["status"]))
        elif k == "inv":
            x = ("<INVACCTINFO><INVACCTFROM><BROKERID>%s</BROKERID><ACCTID>%s</ACCTID></INVACCTFROM><USPRODUCTTYPE>OTHER</USPRODUCTTYPE><CHECKING>N</CHECKING>"
                 "<SVCSTATUS>%s</SVCSTATUS></INVACCTINFO>" % (a["brokerid"], a["acctid"], a["status"]))
        else:
            x = ("<BPACCTINFO><BANKACCTFROM><BANKID>%s</BANKID><ACCTID>%s</ACCTID><ACCTTYPE>CHECKING</ACCTTYPE></BANKACCTFROM><SVCSTATUS>%s</SVCSTATUS></BPACCTINFO>"
                 % (a.get("bankid", "1"), a["acctid"], a["status"]))
        infos.append((k, x))
    # pack: each ACCTINFO may hold one of each kind
    packed = []
    for k, x in infos:
        for p in packed:
            if k not in p[0]:
                p[0].add(k)
                p[1].append(x)
                break
        else:
            packed.append([{k}, [x]])
    ai = "".join("<ACCTINFO><DESC>acct</DESC>%s</ACCTINFO>" % "".join(p[1]) for p in packed)
    body = ("<OFX>" + SONRS + "<SIGNUPMSGSRSV1><ACCTINFOTRNRS><TRNUID>1</TRNUID><STATUS><CODE>0</CODE><SEVERITY>INFO</SEVERITY></STATUS>"
            "<ACCTINFORS><DTACCTUP>%s</DTACCTUP>%s</ACCTINFORS></ACCTINFOTRNRS></SIGNUPMSGSRSV1></OFX>" % (dtacctup, ai))
    return (V2HDR + body).encode("utf_8")
