"""pytest plugin: run the repository's own suite under the online monitors
(init post-condition for C04, to_etree post-condition for C11).  Each test then
is an execution the oracles watch.  The suite deliberately builds invalid
objects, so the monitors only judge calls that RETURNED.

usage: python -m pytest -p vf.pytest_monitors tests   (VF_SUITE_OUT=<dir> collects per-process reports)
"""
import json
import os

from vf.core.ctx import Ctx
from vf.monitors import online

_ctx = None


def pytest_configure(config):
    global _ctx
    _ctx = Ctx("SUITE", "thorough", 0, 0, 1, None)
    online.set_ctx(_ctx)
    online.install_init_monitor()
    online.install_to_etree_monitor()


def pytest_runtest_setup(item):
    if _ctx is not None:
        _ctx.current_test = item.nodeid


def pytest_sessionfinish(session, exitstatus):
    out = os.environ.get("VF_SUITE_OUT")
    if not out or _ctx is None:
        return
    online.flush(_ctx)
    os.makedirs(out, exist_ok=True)
    wid = os.environ.get("PYTEST_XDIST_WORKER", "main")
    _ctx.dump(os.path.join(out, f"{wid}.json"))
