"""One shard of one check, run in its own interpreter by vf.run.

usage: python -m vf.shard <prop> <tier> <seed> <shard> <nshards> <scratch> <out.json> [replay.json]
"""
import faulthandler
import importlib
import json
import os
import sys
import time


HOST_ZONES = ["UTC0", "EST5EDT,M3.2.0,M11.1.0", "IST-5:30", "NZST-12NZDT,M9.5.0,M4.1.0/3", "<-11>11", "CET-1CEST,M3.5.0,M10.5.0/3", "<+1245>-12:45", "UTC0"]


def repo_root():
    return os.path.realpath(os.environ.get("VF_REPO", "/repo"))


def import_ofxtools():
    """Import ofxtools from $VF_REPO (default /repo) and verify where it came from."""
    root = repo_root()
    if root not in sys.path[:1]:
        sys.path.insert(0, root)
    import ofxtools

    got = os.path.realpath(ofxtools.__file__)
    if not got.startswith(root + os.sep):
        raise RuntimeError(f"ofxtools imported from {got}, expected under {root}")
    return ofxtools


def main(argv):
    prop, tier, seed, shard, nshards, scratch, out = argv[:7]
    replay_path = argv[7] if len(argv) > 7 else None
    seed, shard, nshards = int(seed), int(shard), int(nshards)
    faulthandler.enable()
    # xml.etree without its C accelerator (as on interpreters that do not ship _elementtree): shard 5 of every 8, or VF_NO_CET=1
    if os.environ.get("VF_NO_CET", "") == "1" or (os.environ.get("VF_NO_CET") is None and shard % 8 == 5):
        if "xml.etree.ElementTree" not in sys.modules:
            sys.modules["_elementtree"] = None
            os.environ["VF_NO_CET"] = "1"
    # the host's time zone is part of the environment the properties quantify over silently: every shard runs under another one
    # (POSIX TZ strings: no tz database needed).  VF_TZ overrides; a replay uses the zone recorded in the case.
    tz = os.environ.get("VF_TZ") or HOST_ZONES[(seed + shard) % len(HOST_ZONES)]
    if replay_path:
        try:
            with open(replay_path) as f:
                tz = json.load(f).get("host_tz") or tz
        except Exception:  # noqa
            pass
    os.environ["TZ"] = tz
    time.tzset()
    # ... and so is the logging configuration: every fourth shard runs with the library's loggers at DEBUG (as 'ofxget -vv' or an
    # application's logging.basicConfig(level=DEBUG) would), the output discarded
    if (os.environ.get("VF_LOGLEVEL") or ("DEBUG" if shard % 4 == 3 else "")) == "DEBUG":
        import logging

        lg = logging.getLogger("ofxtools")
        lg.setLevel(logging.DEBUG)
        lg.addHandler(logging.NullHandler())
        lg.propagate = False
        os.environ["VF_LOGLEVEL"] = "DEBUG"
    from vf.core.ctx import Ctx, format_exc

    replay_case = None
    if replay_path:
        with open(replay_path) as f:
            replay_case = json.load(f)
    ctx = Ctx(prop, tier, seed, shard, nshards, scratch, replay_case)
    ctx.host_tz = tz
    ctx.add("host_time_zones", tz)
    budget = float(os.environ.get("VF_SHARD_BUDGET_S", "0") or 0)
    if budget:
        ctx.deadline = time.time() + budget
    error = None
    try:
        import_ofxtools()
        # oracle self-tests: a broken oracle must never pass for 'held' (a violation found anyway still stands)
        from vf.oracles import modelwalk, ref_checkdigit, ref_header, ref_sgml, ref_types, ref_validate
        for o in (ref_sgml, ref_types, ref_header, ref_checkdigit, ref_validate, modelwalk):
            try:
                o.selftest()
            except Exception as e:  # noqa
                ctx.inconclusive_because(f"self-test of {o.__name__} failed: {e!r}"[:300])
        mod = importlib.import_module(f"vf.checks.{prop.lower()}")
        if replay_case is not None:
            mod.replay(ctx, replay_case["case"])
        else:
            mod.run_shard(ctx)
    except BaseException:  # noqa: a dead shard must be reported, not lost
        error = format_exc()
    ctx.dump(out, error=error)
    return 0


if __name__ == "__main__":
    sys.exit(main(sys.argv[1:]))
