"""Value generators per element type.  Plain random.Random - a case replays
from (seed string) alone.  Strata: typical / boundary / hostile.
"""
import datetime
import decimal

D = decimal.Decimal

# characters for string data: printable ASCII incl. markup characters, Latin-1,
# cp1252-only, BMP and astral code points
ASCII_SAFE = "abcdefghijklmnopqrstuvwxyzABCXYZ0123456789-_.;:/%=+*@#!?,()[]{}|~^$`\\"
MARKUP = "&<>\"'"
LATIN1 = "éüñßÿ¡©"
CP1252 = "€’…œ"
BMP = "汉字Ωжあ" + "\u212b\u2126\uf900\u0301\u1100\u1161"  # incl. text that is not in normal form C (no normalisation is part of "strings equal")
ASTRAL = "😀𝔘" + "\U0001d15e"
ENTITY_LOOKALIKES = ["&amp;", "&#38;", "&lt;b&gt;", "&nbsp;", "a&b;", "&&", "<!--", "]]>", "<![CDATA[x]]>", "</OFX>", "<A>",
                     # double-escaped: the STORED value then literally contains an entity sequence
                     "&amp;amp;", "&amp;lt;b&amp;gt;", "x&amp;nbsp;y", "&amp;amp;amp;", "R&amp;amp;D <lab> & co", "&amp;gt;&gt;>", "&amp;apos;'", "&amp;quot;\""]

TZNAMES = ["EST", "UTC", "GMT", "PST", "X", "-03", "+0530", "A B", "Zoné", "30", "EST5EDT", "a.b", "", "%H%M", "100%", "%%", "GMT%z", "UTC-05:00"]


def gen_str(rng, maxlen, stratum="mixed"):
    """Non-empty string without leading/trailing whitespace, len <= maxlen."""
    cap = maxlen if maxlen is not None else 10**9
    for _ in range(50):
        r = rng.random()
        if stratum == "plain":
            n = rng.randint(1, min(cap, 10))
            s = "".join(rng.choice(ASCII_SAFE) for _ in range(n))
        elif r < 0.12 and cap < 400:
            # exactly at the limit (every other time with characters that grow when escaped for the wire)
            s = "".join(rng.choice(ASCII_SAFE + " " + (MARKUP[:3] * 4 if rng.random() < 0.5 else "")) for _ in range(cap))
        elif r < 0.30:
            s = rng.choice(ENTITY_LOOKALIKES) + "".join(rng.choice(ASCII_SAFE) for _ in range(rng.randint(0, 4)))
            if rng.random() < 0.5:
                s = "".join(rng.choice(ASCII_SAFE) for _ in range(rng.randint(1, 3))) + s
        else:
            n = rng.randint(1, min(cap, 14))
            alpha = ASCII_SAFE + " " + MARKUP * 3
            if r > 0.55:
                alpha += LATIN1 + CP1252 + BMP + ASTRAL
            if r > 0.92:
                alpha += "\n\t"
            s = "".join(rng.choice(alpha) for _ in range(n))
        s = s.strip()
        # String.convert() decodes entities when the value is stored: the stored value must
        # itself be non-empty and free of leading/trailing whitespace (C01's quantifier)
        dec = _decode(s)
        if s and len(s) <= cap and dec and dec == dec.strip():
            return s
    return "x"


def _decode(s):
    for ent, ch in (("&lt;", "<"), ("&gt;", ">"), ("&nbsp;", " "), ("&apos;", "'"), ("&quot;", '"'), ("&amp;", "&")):
        s = s.replace(ent, ch)
    return s


class DstTz(datetime.tzinfo):
    """A zone whose offset depends on the date, with the repeated hour told apart by ``fold`` (PEP 495) - what zoneinfo gives a caller.
    Rule: daylight time from the second Sunday of March 02:00 to the first Sunday of November 02:00 (local), shifting by ``shift`` minutes."""

    def __init__(self, std_minutes, shift, names):
        self.std, self.shift, self.names = datetime.timedelta(minutes=std_minutes), datetime.timedelta(minutes=shift), tuple(names)

    def __getinitargs__(self):  # copy / pickle support (as zoneinfo has)
        return (self.std // datetime.timedelta(minutes=1), self.shift // datetime.timedelta(minutes=1), self.names)

    def __repr__(self):
        return f"DstTz{self.__getinitargs__()}"

    @staticmethod
    def _nth_sunday(year, month, n):
        d = datetime.datetime(year, month, 1, 2)
        d += datetime.timedelta(days=(6 - d.weekday()) % 7 + 7 * (n - 1))
        return d

    def _is_dst(self, dt):
        if dt is None:
            return False  # asked on behalf of a datetime.time: the standard offset
        naive = dt.replace(tzinfo=None, fold=0)
        start, end = self._nth_sunday(dt.year, 3, 2), self._nth_sunday(dt.year, 11, 1)
        if start + self.shift <= naive < end - self.shift:
            return True
        if start <= naive < start + self.shift:
            return True  # the skipped hour: counted as daylight time
        if end - self.shift <= naive < end:
            return dt.fold == 0  # the repeated hour: first pass daylight, second pass standard
        return False

    def utcoffset(self, dt):
        return self.std + (self.shift if self._is_dst(dt) else datetime.timedelta(0))

    def dst(self, dt):
        return self.shift if self._is_dst(dt) else datetime.timedelta(0)

    def tzname(self, dt):
        return self.names[1 if self._is_dst(dt) else 0]

    def transitions(self, year):
        return self._nth_sunday(year, 3, 2), self._nth_sunday(year, 11, 1)


DST_ZONES = [(-300, 60, ("EST", "EDT")), (630, 30, ("LHST", "LHDT")), (60, 60, ("CET", "CEST")), (-210, 60, ("NST", "NDT"))]


def gen_tz(rng):
    if rng.random() < 0.1:
        return DstTz(*rng.choice(DST_ZONES))
    off = rng.choice([0, 0, 60 * rng.randint(-12, 14), rng.randint(-12 * 60, 14 * 60), -rng.randint(1, 59), rng.randint(1, 59)])
    off = max(-12 * 60, min(14 * 60, off))
    if rng.random() < 0.15:
        return datetime.timezone(datetime.timedelta(minutes=off))
    return datetime.timezone(datetime.timedelta(minutes=off), rng.choice(TZNAMES))


def gen_datetime(rng):
    year = rng.choice([rng.randint(1900, 2199), rng.randint(1970, 2037), 1900, 2199, 2000, 2024])
    month = rng.randint(1, 12)
    day = rng.choice([1, 28, rng.randint(1, 28)])
    if month == 2 and year % 4 == 0 and (year % 100 != 0 or year % 400 == 0) and rng.random() < 0.3:
        day = 29
    if rng.random() < 0.1:
        month, day = 12, 31
    us = rng.choice([0, 0, 1000 * rng.randint(0, 999), rng.randint(0, 999999), 999499, 999500, 999999, 500, 499])
    h, mi, s = rng.choice([(0, 0, 0), (23, 59, 59), (rng.randint(0, 23), rng.randint(0, 59), rng.randint(0, 59))])
    tz = gen_tz(rng)
    if isinstance(tz, DstTz):
        # half of them inside the hour that occurs twice when daylight time ends, told apart by fold
        if rng.random() < 0.5:
            end = tz.transitions(year)[1]
            at = end - tz.shift + datetime.timedelta(seconds=rng.randint(0, int(tz.shift.total_seconds()) - 1), microseconds=us)
            return at.replace(tzinfo=tz, fold=rng.choice([0, 1]))
        return datetime.datetime(year, month, day, h, mi, s, us, tzinfo=tz, fold=rng.choice([0, 1]))
    return datetime.datetime(year, month, day, h, mi, s, us, tzinfo=tz)


def gen_time(rng):
    us = rng.choice([0, 1000 * rng.randint(0, 999), rng.randint(0, 999999), 999500])
    h, mi, s = rng.choice([(0, 0, 0), (23, 59, 59), (rng.randint(0, 23), rng.randint(0, 59), rng.randint(0, 59))])
    tz = gen_tz(rng)
    while isinstance(tz, DstTz):  # a time of day carries no date for the rule to look at
        tz = gen_tz(rng)
    return datetime.time(h, mi, s, us, tzinfo=tz)


def gen_decimal(rng, quantum):
    """Decimal with exponent <= 0 (the C01/C10 round-trip domain)."""
    if quantum is not None:
        n = rng.choice([0, 1, -1, rng.randint(-10**6, 10**6), rng.randint(-10**12, 10**12)])
        return (D(n) * quantum).quantize(quantum) if quantum.is_finite() else D(n)
    places = rng.choice([0, 0, 2, 2, rng.randint(0, 8)])
    n = rng.choice([0, 1, -1, rng.randint(-10**8, 10**8), rng.randint(-10**15, 10**15), 10**9, 5])
    return D(n).scaleb(-places)


def gen_integer(rng, length):
    if length is not None:
        hi = 10**length - 1
        return rng.choice([0, 1, hi, rng.randint(0, hi), -hi, -(10 ** (length - 1)), -rng.randint(0, hi)])
    return rng.choice([0, 1, -1, rng.randint(-10**6, 10**6), 10**12, rng.randint(0, 9999)])


def gen_value(rng, desc, stratum="mixed"):
    """A valid Python value for an element descriptor (not sub-aggregates)."""
    from ofxtools import Types as T

    if isinstance(desc, T.ListElement):
        desc = desc.converter
    if isinstance(desc, T.Bool):
        return rng.choice([True, False])
    if isinstance(desc, T.OneOf):
        return rng.choice(list(desc.valid))
    if isinstance(desc, T.String):
        return gen_str(rng, desc.length, stratum)
    if isinstance(desc, T.Integer):
        return gen_integer(rng, desc.length)
    if isinstance(desc, T.Decimal):
        return gen_decimal(rng, desc.scale)
    if isinstance(desc, T.Time):
        return gen_time(rng)
    if isinstance(desc, T.DateTime):
        return gen_datetime(rng)
    raise TypeError(f"no generator for {desc!r}")
