"""Value generators per element type.  Plain random.Random - a case replays
from (seed string) alone.  Strata: typical / boundary / hostile.
"""
import datetime
import decimal

D = decimal.Decimal

# characters for string data: printable ASCII incl. markup characters, Latin-1,
# cp1252-only, BMP and astral code points
ASCII_SAFE = "abcdefghijklmnopqrstuvwxyzABCXYZ0123456789-_.;:/%=+*@#!?,()[]{}|~^$`\\"
MARKUP = "&<>\"'"
LATIN1 = "éüñßÿ¡©"
CP1252 = "€’…œ"
BMP = "汉字Ωжあ"
ASTRAL = "😀𝔘"
ENTITY_LOOKALIKES = ["&amp;", "&#38;", "&lt;b&gt;", "&nbsp;", "a&b;", "&&", "<!--", "]]>", "<![CDATA[x]]>", "</OFX>", "<A>",
                     # double-escaped: the STORED value then literally contains an entity sequence
                     "&amp;amp;", "&amp;lt;b&amp;gt;", "x&amp;nbsp;y", "&amp;amp;amp;", "R&amp;amp;D <lab> & co", "&amp;gt;&gt;>", "&amp;apos;'", "&amp;quot;\""]

TZNAMES = ["EST", "UTC", "GMT", "PST", "X", "-03", "+0530", "A B", "Zoné", "30", "EST5EDT", "a.b"]


def gen_str(rng, maxlen, stratum="mixed"):
    """Non-empty string without leading/trailing whitespace, len <= maxlen."""
    cap = maxlen if maxlen is not None else 10**9
    for _ in range(50):
        r = rng.random()
        if stratum == "plain":
            n = rng.randint(1, min(cap, 10))
            s = "".join(rng.choice(ASCII_SAFE) for _ in range(n))
        elif r < 0.12 and cap < 400:
            # exactly at the limit
            s = "".join(rng.choice(ASCII_SAFE + " ") for _ in range(cap))
        elif r < 0.30:
            s = rng.choice(ENTITY_LOOKALIKES) + "".join(rng.choice(ASCII_SAFE) for _ in range(rng.randint(0, 4)))
            if rng.random() < 0.5:
                s = "".join(rng.choice(ASCII_SAFE) for _ in range(rng.randint(1, 3))) + s
        else:
            n = rng.randint(1, min(cap, 14))
            alpha = ASCII_SAFE + " " + MARKUP * 3
            if r > 0.55:
                alpha += LATIN1 + CP1252 + BMP + ASTRAL
            if r > 0.92:
                alpha += "\n\t"
            s = "".join(rng.choice(alpha) for _ in range(n))
        s = s.strip()
        # String.convert() decodes entities when the value is stored: the stored value must
        # itself be non-empty and free of leading/trailing whitespace (C01's quantifier)
        dec = _decode(s)
        if s and len(s) <= cap and dec and dec == dec.strip():
            return s
    return "x"


def _decode(s):
    for ent, ch in (("&lt;", "<"), ("&gt;", ">"), ("&nbsp;", " "), ("&apos;", "'"), ("&quot;", '"'), ("&amp;", "&")):
        s = s.replace(ent, ch)
    return s


def gen_tz(rng):
    off = rng.choice([0, 0, 60 * rng.randint(-12, 14), rng.randint(-12 * 60, 14 * 60), -rng.randint(1, 59), rng.randint(1, 59)])
    off = max(-12 * 60, min(14 * 60, off))
    if rng.random() < 0.15:
        return datetime.timezone(datetime.timedelta(minutes=off))
    return datetime.timezone(datetime.timedelta(minutes=off), rng.choice(TZNAMES))


def gen_datetime(rng):
    year = rng.choice([rng.randint(1900, 2199), rng.randint(1970, 2037), 1900, 2199, 2000, 2024])
    month = rng.randint(1, 12)
    day = rng.choice([1, 28, rng.randint(1, 28)])
    if month == 2 and year % 4 == 0 and (year % 100 != 0 or year % 400 == 0) and rng.random() < 0.3:
        day = 29
    if rng.random() < 0.1:
        month, day = 12, 31
    us = rng.choice([0, 0, 1000 * rng.randint(0, 999), rng.randint(0, 999999), 999499, 999500, 999999, 500, 499])
    h, mi, s = rng.choice([(0, 0, 0), (23, 59, 59), (rng.randint(0, 23), rng.randint(0, 59), rng.randint(0, 59))])
    return datetime.datetime(year, month, day, h, mi, s, us, tzinfo=gen_tz(rng))


def gen_time(rng):
    us = rng.choice([0, 1000 * rng.randint(0, 999), rng.randint(0, 999999), 999500])
    h, mi, s = rng.choice([(0, 0, 0), (23, 59, 59), (rng.randint(0, 23), rng.randint(0, 59), rng.randint(0, 59))])
    return datetime.time(h, mi, s, us, tzinfo=gen_tz(rng))


def gen_decimal(rng, quantum):
    """Decimal with exponent <= 0 (the C01/C10 round-trip domain)."""
    if quantum is not None:
        n = rng.choice([0, 1, -1, rng.randint(-10**6, 10**6), rng.randint(-10**12, 10**12)])
        return (D(n) * quantum).quantize(quantum) if quantum.is_finite() else D(n)
    places = rng.choice([0, 0, 2, 2, rng.randint(0, 8)])
    n = rng.choice([0, 1, -1, rng.randint(-10**8, 10**8), rng.randint(-10**15, 10**15), 10**9, 5])
    return D(n).scaleb(-places)


def gen_integer(rng, length):
    if length is not None:
        hi = 10**length - 1
        return rng.choice([0, 1, hi, rng.randint(0, hi), -hi, -(10 ** (length - 1)), -rng.randint(0, hi)])
    return rng.choice([0, 1, -1, rng.randint(-10**6, 10**6), 10**12, rng.randint(0, 9999)])


def gen_value(rng, desc, stratum="mixed"):
    """A valid Python value for an element descriptor (not sub-aggregates)."""
    from ofxtools import Types as T

    if isinstance(desc, T.ListElement):
        desc = desc.converter
    if isinstance(desc, T.Bool):
        return rng.choice([True, False])
    if isinstance(desc, T.OneOf):
        return rng.choice(list(desc.valid))
    if isinstance(desc, T.String):
        return gen_str(rng, desc.length, stratum)
    if isinstance(desc, T.Integer):
        return gen_integer(rng, desc.length)
    if isinstance(desc, T.Decimal):
        return gen_decimal(rng, desc.scale)
    if isinstance(desc, T.Time):
        return gen_time(rng)
    if isinstance(desc, T.DateTime):
        return gen_datetime(rng)
    raise TypeError(f"no generator for {desc!r}")
