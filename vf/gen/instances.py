"""Valid-instance generator for every Aggregate class, driven by ref_decl.

``build(cls, rng, profile)`` returns an instance of the real class built through
its real constructor.  A candidate that this module believes valid but the
constructor rejects raises ``ConstructorRejected`` - callers treat that as a
finding (C13/C01), except where a class overrides ``validate_args`` with a rule
this generator does not know (then ``GenGiveUp``).
"""
import random as _random
from vf.gen import values
from vf.oracles import ref_decl


class ConstructorRejected(Exception):
    def __init__(self, clsname, exc, kwargs_keys, member_types):
        super().__init__(f"{clsname}({member_types}, {kwargs_keys}) rejected: {type(exc).__name__}: {exc}")
        self.clsname = clsname
        self.exc = exc


class GenGiveUp(Exception):
    pass


# classes whose validate_args carries extra rules that the generator honours
ONE_OR_MORE = {"MSGSETCORE", "MFACHALLENGERS", "MSGSETLIST", "CONTRIBINFO", "TAX1099MSGSRQV1", "TAX1099MSGSRSV1",
               "TAX1099MSGSETV1", "ACCTINFO", "TAX1099RS"}


class Opts:
    def __init__(self, stratum="mixed", run_order=True, value_fn=None, maxdepth=9, force=(), exclude=(), explicit_none=False):
        self.stratum = stratum
        self.run_order = run_order
        self.explicit_none = explicit_none  # absent optional children are passed as keyword=None instead of being left out
        self.value_fn = value_fn  # optional override: (rng, desc, clsname, attr) -> value or NotImplemented
        self.maxdepth = maxdepth
        self.force = tuple(force)  # children of the ROOT class that must be present (list attr: >=1 member)
        self.exclude = tuple(exclude)  # children of the ROOT class that must be absent


def list_runs(cls):
    """Runs of adjacent list attributes (Unsupported ignored): attr -> run index."""
    runs, idx, prev_list = {}, -1, False
    for k, d in ref_decl.decl(cls).items():
        kind = ref_decl.kind_of(d)
        if kind == "unsupported":
            continue
        if kind in ("listagg", "listelem"):
            if not prev_list:
                idx += 1
            runs[k] = idx
            prev_list = True
        else:
            prev_list = False
    return runs


def _value(rng, desc, clsname, attr, opts):
    if opts.value_fn is not None:
        v = opts.value_fn(rng, desc, clsname, attr)
        if v is not NotImplemented:
            return v
    return values.gen_value(rng, desc, opts.stratum)


def plan(cls, rng, profile, depth, opts):
    """Decide which children are present and how many list members of which type.
    Returns (present: dict attr->bool for non-list children, members: list of list-attr names)."""
    d = ref_decl.decl(cls)
    name = cls.__name__
    if profile == "min":
        pfill = 0.0
    elif profile == "max":
        pfill = 1.0 if depth < 3 else (0.4 if depth < 5 else 0.0)
    else:
        pfill = max(0.0, 0.75 - 0.14 * depth) if depth < opts.maxdepth - 2 else 0.0
    present = {}
    listattrs = []
    for k, t in d.items():
        kind = ref_decl.kind_of(t)
        if kind == "unsupported":
            continue
        if kind in ("listagg", "listelem"):
            listattrs.append(k)
            continue
        present[k] = bool(getattr(t, "required", False)) or rng.random() < pfill

    # list members
    members = []
    if listattrs:
        if profile == "min":
            n = 0
        elif profile == "max":
            n = 2 * len(listattrs) if depth < 2 else (1 if depth < 4 else 0)
        else:
            n = rng.choice([0, 0, 1, 2, 3]) if depth < 5 else rng.choice([0, 0, 1])
        if profile == "max" and depth < 2:
            members = listattrs + listattrs
            rng.shuffle(members)
            members = members[:24]
        else:
            members = [rng.choice(listattrs) for _ in range(n)]

    force = set(opts.force) if depth == 0 else set()
    exclude = set(opts.exclude) if depth == 0 else set()
    for g in force:
        if g in present:
            present[g] = True
        elif g in listattrs and g not in members:
            members.append(g)
    for g in exclude:
        if g in present:
            present[g] = False
        members = [m for m in members if m != g]

    # ---- exclusivity groups (members may be list attributes) ----
    opt, req = ref_decl.mutexes_in_force(cls)

    def is_on(g):
        return present.get(g, False) or g in members

    def switch_off(g):
        if g in present:
            present[g] = False
        while g in members:
            members.remove(g)

    def switch_on(g):
        if g in present:
            present[g] = True
        elif g in listattrs:
            members.append(g)

    for _ in range(6):
        changed = False
        for group in req:
            group = [g for g in group if g in present or g in listattrs]
            on = [g for g in group if is_on(g)]
            if group and all(g in exclude for g in group):
                continue  # caller deliberately wants none of this group (negative probe)
            if len(on) != 1 and group:
                forced = [g for g in (on or group) if g in force]
                allowed = [g for g in (on or group) if g not in exclude] or group
                keep = forced[0] if forced else rng.choice(allowed)
                for g in group:
                    if g == keep:
                        if not is_on(g):
                            switch_on(g)
                    elif is_on(g):
                        switch_off(g)
                changed = True
        for group in opt:
            on = [g for g in group if is_on(g)]
            if len(on) > 1:
                # prefer to keep a child that is required or sits in a required group
                pinned = [g for g in on if g in force] or [g for g in on if getattr(d.get(g), "required", False) or any(g in rg for rg in req)]
                keep = rng.choice(pinned) if pinned else rng.choice(on)
                for g in on:
                    if g != keep:
                        switch_off(g)
                changed = True
        if not changed:
            break

    # ---- class-specific rules (validate_args overrides) ----
    if name == "SONRQ":
        keyside = ("userkey" in force) if (force & {"userkey", "userid", "userpass"}) else (rng.random() >= 0.6)
        if "userkey" in exclude:
            keyside = False
        if not keyside:
            present.update(userid=True, userpass=True, userkey=False)
        else:
            present.update(userid=False, userpass=False, userkey=True)
    elif name == "OFX":
        side = rng.choice(["rq", "rs"])
        for f in force:
            if f.endswith("rqv1") or f.endswith("rsv1"):
                side = f[-4:-2]
        for k in list(present):
            if not k.endswith(side + "v1"):
                present[k] = False
        if ("signonmsgs%sv1" % side) not in exclude:
            present["signonmsgs%sv1" % side] = True
    elif name == "CONTRIBSECURITY":
        side = rng.choice(["pct", "amt"])
        for f in force:
            if f.endswith("pct") or f.endswith("amt"):
                side = f[-3:]
        ks = [k for k in present if k != "secid"]
        for k in ks:
            if not k.endswith(side):
                present[k] = False
        if not any(present[k] for k in ks):
            present[rng.choice([k for k in ks if k.endswith(side)])] = True
    elif name == "EXTDPAYEE":
        if present.get("payeeid"):
            present.update(idscope=True, name=True)
    elif name == "TAX1099R_V100":
        if any(present.get(k) for k in ("grossdist", "taxamt", "fedtaxwh", "sttaxwh", "lcltaxwh")):
            present["irasepsimp"] = True
    elif name == "EXTDPMT":
        if not present.get("extdpmtdsc") and "extdpmtinv" not in members:
            if rng.random() < 0.5 and "extdpmtinv" in listattrs:
                members.append("extdpmtinv")
            else:
                present["extdpmtdsc"] = True
    if name in ONE_OR_MORE and listattrs and not members:
        members.append(rng.choice(listattrs))
    if name == "ACCTINFO":
        seen = set()
        members = [m for m in members if not (m in seen or seen.add(m))]
    if name == "TAX1099RS" and not any(m.startswith("tax1099") for m in members):
        members.append(rng.choice([a for a in listattrs if a.startswith("tax1099")]))

    if opts.run_order and members:
        runs = list_runs(cls)
        if len(set(runs.values())) > 1:
            members.sort(key=lambda m: runs[m])  # stable: keeps order inside a run
    return present, members


def build(cls, rng, profile="random", depth=0, opts=None):
    args, kwargs = make_args(cls, rng, profile, depth, opts)
    try:
        return cls(*args, **kwargs)
    except Exception as e:  # noqa
        raise ConstructorRejected(cls.__name__, e, sorted(kwargs), [type(a).__name__ for a in args])


def make_args(cls, rng, profile="random", depth=0, opts=None):
    """(args, kwargs) for a valid instance of cls - children already built."""
    opts = opts or Opts()
    if depth > opts.maxdepth + 4:
        raise GenGiveUp(f"nesting deeper than {opts.maxdepth + 4} at {cls.__name__}")
    d = ref_decl.decl(cls)
    present, members = plan(cls, rng, profile, depth, opts)
    kwargs = {}
    for k, on in present.items():
        if not on:
            continue
        t = d[k]
        if ref_decl.kind_of(t) == "sub":
            kwargs[k] = build(t.__type__, rng, profile, depth + 1, opts)
        else:
            kwargs[k] = _value(rng, t, cls.__name__, k, opts)
    if opts.explicit_none:
        # callers that build keyword dictionaries programmatically pass the children they do not have as None: the same instance
        # (drawn from a generator of its own, so that the values above are what they would be without this)
        r2 = _random.Random(f"{cls.__name__}/{depth}/{sorted(kwargs)}/none")
        for k, on in present.items():
            if not on and ref_decl.kind_of(d[k]) in ("elem", "sub") and r2.random() < 0.3:
                kwargs[k] = None
    args = []
    for m in members:
        t = d[m]
        if ref_decl.kind_of(t) == "listagg":
            args.append(build(t.__type__, rng, profile, depth + 1, opts))
        else:
            args.append(_value(rng, t, cls.__name__, m, opts))
    return args, kwargs


def child_value(cls, attr, rng, opts=None):
    """A valid value for one declared child (sub-aggregate instance, member, or element value)."""
    opts = opts or Opts()
    t = ref_decl.decl(cls)[attr]
    kind = ref_decl.kind_of(t)
    if kind in ("sub", "listagg"):
        return build(t.__type__, rng, "min", 1, opts)
    return _value(rng, t, cls.__name__, attr, opts)


def build_seeded(clsname, seedstr, profile="random", opts=None):
    """Deterministic rebuild from a replay record."""
    import random

    cls = ref_decl.all_classes()[clsname]
    return build(cls, random.Random(seedstr), profile, 0, opts)
