"""Render a reference tree ((tag, data) | (tag, [children])) to OFX body text with
independent per-node choices: data-element end tag yes/no, CDATA spelling,
inter-token whitespace, whitespace around data.

Never generates the UNSPECIFIED layout: '<' inside data.  (Whitespace between a start
tag and '<![CDATA[' or between ']]>' and the end tag used to be left out as
unspecified; the library dropped the data there - repaired, and rendered since.)
"""
import itertools

FILLERS = ["", "\n", "\r\n", "  ", "\t", "\n    ", " \n\n "]


def cdata_ok(data):
    return "&" not in data and "]]>" not in data and "<" not in data


def leaf_forms(data):
    """Allowed spellings of a data leaf: (closed?, cdata?)"""
    forms = [(True, False), (False, False)]
    if cdata_ok(data):
        forms += [(True, True), (False, True)]
    return forms


def render(tree, leaf_choice, ws_choice, pad_choice=None, empty_choice=None):
    """leaf_choice(node_index, data) -> (closed, cdata); ws_choice(slot_index) -> filler string;
    pad_choice(node_index) -> (lead, trail) whitespace around plain data."""
    out = []
    counter = {"node": 0, "slot": 0}

    def ws():
        s = ws_choice(counter["slot"])
        counter["slot"] += 1
        return s

    def emit(node, ambiguous=False):
        idx = counter["node"]
        counter["node"] += 1
        tag, content = node[0], node[1]
        if isinstance(content, list) and not content and empty_choice is not None and empty_choice(idx):
            out.append(f"<{tag}{empty_choice(idx)}>")  # XML empty-element tag ("/" or " /")
            out.append(ws())
        elif isinstance(content, list):
            out.append(f"<{tag}>")
            out.append(ws())
            for j, c in enumerate(content):
                # an end-tag-less data leaf directly followed by its parent's end tag
                # of the SAME name would be read as closed by it: inherently ambiguous
                emit(c, ambiguous=(j == len(content) - 1 and c[0] == tag))
            out.append(f"</{tag}>")
            out.append(ws())
        else:
            closed, cdata = leaf_choice(idx, content)
            if ambiguous:
                closed = True
            out.append(f"<{tag}>")
            if cdata:
                # blank space between the start tag and the section, and between the section and what follows, is formatting
                # (the section's own content is literal, blanks included)
                lead, trail = pad_choice(idx) if pad_choice else ("", "")
                out.append(f"{lead}<![CDATA[{content}]]>{trail}")
            else:
                lead, trail = pad_choice(idx) if pad_choice else ("", "")
                out.append(lead + content + trail)
            if closed:
                out.append(f"</{tag}>")
            out.append(ws())

    out.append(ws())
    emit(tree)
    return "".join(out)


def count_leaves_nodes(tree):
    if isinstance(tree[1], list):
        ls, ns = 0, 1
        for c in tree[1]:
            a, b = count_leaves_nodes(c)
            ls += a
            ns += b
        return ls, ns
    return 1, 1


def leaves_in_order(tree, acc=None, idx=None):
    """[(node_index, data)] in emission order."""
    if acc is None:
        acc, idx = [], [0]
    me = idx[0]
    idx[0] += 1
    if isinstance(tree[1], list):
        for c in tree[1]:
            leaves_in_order(c, acc, idx)
    else:
        acc.append((me, tree[1]))
    return acc


def all_renderings(tree, fillers=("", "\n", "  ")):
    """Every combination of leaf spellings x one uniform filler (exhaustive driver)."""
    leaves = leaves_in_order(tree)
    spaces = [leaf_forms(d) for _, d in leaves]
    for combo in itertools.product(*spaces):
        choice = {leaves[i][0]: combo[i] for i in range(len(leaves))}
        for f in fillers:
            yield render(tree, lambda i, d: choice[i], lambda s, f=f: f), {"leaf": [list(c) for c in combo], "filler": f}


def random_rendering(tree, rng):
    mode = rng.random()
    uniform = rng.choice(FILLERS)

    def leaf_choice(i, d):
        forms = leaf_forms(d)
        if mode < 0.2:
            return (True, False)  # XML style
        if mode < 0.4:
            return (False, False)  # SGML style
        return rng.choice(forms)

    def ws_choice(s):
        if mode < 0.5:
            return uniform
        return rng.choice(FILLERS)

    def pad_choice(i):
        if rng.random() < 0.7:
            return ("", "")
        return (rng.choice(["", " ", "\n  "]), rng.choice(["", " ", "\n", "\r\n  "]))

    picks = {}

    def empty_choice(i):
        # an aggregate without children may be written as an XML empty-element tag (not in the SGML-only mode)
        if i not in picks:
            picks[i] = "" if (0.2 <= mode < 0.4 or rng.random() < 0.6) else rng.choice(["/", " /"])
        return picks[i]

    return render(tree, leaf_choice, ws_choice, pad_choice, empty_choice)


# ---- tree enumeration / generation -------------------------------------------
def shapes(n):
    """All ordered rooted tree shapes with exactly n nodes, as nested lists of children."""
    if n == 1:
        return [[]]
    out = []
    # distribute n-1 nodes over an ordered forest
    def forests(k):
        if k == 0:
            return [[]]
        res = []
        for first in range(1, k + 1):
            for t in shapes(first):
                for rest in forests(k - first):
                    res.append([t] + rest)
        return res
    return forests(n - 1)


TAGS = ["A", "B1", "X.Y", "A_B"]
DATA = ["1", "a b", "x&amp;y", "]]", "a>b", "l1\nl2", "AT&T", "&#38;x&#x26;"]


def label(shape, tagsel, datasel, emptyagg, counter=None):
    """Turn a shape into a reference tree.  Childless nodes become data leaves, or
    empty aggregates when emptyagg(i) says so."""
    counter = counter if counter is not None else [0]
    i = counter[0]
    counter[0] += 1
    tag = tagsel(i)
    if shape:
        return (tag, [label(c, tagsel, datasel, emptyagg, counter) for c in shape])
    if emptyagg(i):
        return (tag, [])
    return (tag, datasel(i))


def random_tree(rng, maxnodes=60, maxdepth=8, tags=None, datagen=None):
    if tags is None:
        tags = ["OFX", "STMTRS", "A", "B1", "X.Y", "A_B", "INTU.BID", "CODE", "NAME", "Z9", "_U"]
        if rng.random() < 0.3:
            # names as long as / longer than any tag the models define (23), and a few-letter alphabet so that a name recurs
            # inside its own subtree (A(B(A x)))
            tags = rng.choice([tags + ["L" * 31 + "A", "L" * 32 + "B", "VENDOR." + "X" * 40, "Q" * 64], ["A", "B"], ["A", "B", "C"]])
    budget = [rng.randint(1, maxnodes)]

    def data():
        if datagen:
            return datagen(rng)
        r = rng.random()
        if r < 0.5:
            return rng.choice(DATA)
        alpha = "abcXYZ019 &;>\"'éü€汉-_.:/%][#"
        s = "".join(rng.choice(alpha) for _ in range(rng.randint(1, 12))).strip()
        if rng.random() < 0.7:
            s = s.replace("&", "&amp;")  # otherwise: bare ampersands stay as they are (legal SGML data, must come through untouched)
        return s or "x"

    def node(depth):
        budget[0] -= 1
        tag = rng.choice(tags)
        if depth >= maxdepth or budget[0] <= 0 or rng.random() < 0.45:
            if rng.random() < 0.12:
                return (tag, [])
            return (tag, data())
        kids = []
        for _ in range(rng.randint(1, 5)):
            if budget[0] <= 0:
                break
            kids.append(node(depth + 1))
        return (tag, kids)

    root = node(0)
    if not isinstance(root[1], list):
        root = ("OFX", [root])
    return root
