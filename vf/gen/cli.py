"""In-process driver for ofxtools.scripts.ofxget: each simulated invocation reloads
the module (it reads both config files at import), sets sys.argv, runs the real
main() with stdout captured and with the request handlers wrapped so that the
effective (merged) argument mapping is observable.  A few invocations are also run
as true subprocesses to validate the in-process shortcut.
"""
import contextlib
import importlib
import io
import logging
import os
import sys
import warnings


class Invocation:
    def __init__(self):
        self.args = None  # effective merged args (dict) as handed to the request handler
        self.stdout = ""
        self.exc = None
        self.exit = None
        self.warnings = []


def user_cfg_path():
    from ofxtools import config
    return config.USERCONFIGDIR / "ofxget.cfg"


def load_ofxget():
    import ofxtools.scripts.ofxget as og
    return importlib.reload(og)


def merge_only(argv):
    """parse_args + merge_config (no handler): -> (effective dict | None, exception | None, module)"""
    og = load_ofxget()
    try:
        ns = og.make_argparser().parse_args(argv)
        merged = og.merge_config(ns, og.USERCFG)
        return {k: merged[k] for k in og.DEFAULTS if k in merged} | {k: merged.get(k) for k in ("server", "request")}, None, og
    except SystemExit as e:
        return None, e, og
    except Exception as e:
        return None, e, og


def run_main(argv, call_handler=True, reload=True):
    """The real main(): argparse from sys.argv, merge, handler.  Returns Invocation.
    reload=False: a further invocation inside the already loaded module (module-level state is kept,
    the configuration files are NOT re-read - use it only when they have not changed)."""
    if reload:
        og = load_ofxget()
    else:
        import ofxtools.scripts.ofxget as og
    inv = Invocation()
    real = dict(og.REQUEST_HANDLERS)

    def wrap(name, fn):
        def handler(args):
            inv.args = {k: args[k] for k in og.DEFAULTS if k in args}
            inv.args["server"] = args.get("server")
            if call_handler:
                return fn(args)
        return handler

    for k, fn in real.items():
        og.REQUEST_HANDLERS[k] = wrap(k, getattr(fn, "_vf_real", fn))
        og.REQUEST_HANDLERS[k]._vf_real = getattr(fn, "_vf_real", fn)
    out = io.StringIO()
    old_argv = sys.argv
    sys.argv = ["ofxget"] + list(argv)
    root = logging.getLogger()
    old_handlers, old_level = list(root.handlers), root.level
    try:
        with contextlib.redirect_stdout(out), contextlib.redirect_stderr(io.StringIO()), warnings.catch_warnings(record=True) as w:
            warnings.simplefilter("always")
            try:
                og.main()
            except SystemExit as e:
                inv.exit = e.code
            except Exception as e:
                inv.exc = e
        inv.warnings = [str(x.message) for x in w]
    finally:
        sys.argv = old_argv
        logging.captureWarnings(False)
        for h in list(root.handlers):
            root.removeHandler(h)
        for h in old_handlers:
            root.addHandler(h)
        root.setLevel(old_level)
    inv.stdout = out.getvalue()
    return inv, og


def extract_request(stdout):
    """The OFX request printed by a dry run (stdout may also carry log lines)."""
    # the request is what is printed LAST; with -v / -vv the log lines before it may quote requests, too
    i = stdout.rfind("OFXHEADER:100")
    j = stdout.rfind("<?xml")
    starts = [x for x in (i, j) if x >= 0]
    if not starts:
        return None
    s = stdout[max(starts):]
    end = s.rfind("</OFX>")
    if end < 0:
        return None
    return s[: end + 6].encode("utf_8")
