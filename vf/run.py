"""Driver: ./check <PROP> [quick|thorough] [--replay path]

Splits a check into shards (one fresh interpreter each, subprocess.run with a
timeout - never multiprocessing.Pool), merges their reports, classifies
violations against known_findings.json, writes evidence/<PROP>.json and, for
violations, replays/<PROP>/<key>.json.

Exit status: 0 held (possibly with KNOWN-FINDING lines), 1 violation,
2 inconclusive (a deciding monitor observed nothing, a shard died or timed out).
"""
import concurrent.futures
import importlib
import json
import os
import re
import shutil
import subprocess
import sys
import tempfile
import time

HERE = os.path.dirname(os.path.dirname(os.path.abspath(__file__)))
PY = "/venv/bin/python"


def load_known():
    path = os.path.join(HERE, "known_findings.json")
    if not os.path.exists(path):
        return []
    with open(path) as f:
        return json.load(f).get("findings", [])


def safe_name(key):
    return re.sub(r"[^A-Za-z0-9_.-]+", "_", key)[:120]


def shard_env(scratch):
    env = dict(os.environ)
    repo = os.path.realpath(env.get("VF_REPO", "/repo"))
    env["VF_REPO"] = repo
    env["PYTHONPATH"] = os.pathsep.join([repo, HERE])
    env["PYTHONHASHSEED"] = "0"
    env["PYTHONPYCACHEPREFIX"] = os.path.join(scratch, "pyc")
    env["PYTHONDONTWRITEBYTECODE"] = ""
    env.pop("PYTHONDONTWRITEBYTECODE")
    env["PYTHONWARNINGS"] = "ignore"
    env["OFXTOOLS_VERIF"] = "1"
    home = os.path.join(scratch, "home")
    env["HOME"] = home
    env["XDG_CONFIG_HOME"] = os.path.join(home, "config")
    env["XDG_DATA_HOME"] = os.path.join(home, "data")
    env["XDG_CACHE_HOME"] = os.path.join(home, "cache")
    env["TMPDIR"] = os.path.join(scratch, "tmp")
    for k in ("HOME", "XDG_CONFIG_HOME", "XDG_DATA_HOME", "XDG_CACHE_HOME", "TMPDIR"):
        os.makedirs(env[k], exist_ok=True)
    for k in ("http_proxy", "https_proxy", "HTTP_PROXY", "HTTPS_PROXY", "ALL_PROXY", "all_proxy"):
        env.pop(k, None)
    env["no_proxy"] = "*"
    return env


def run_one(prop, tier, seed, i, n, scratch, timeout, replay=None):
    sdir = os.path.join(scratch, f"s{i}")
    os.makedirs(sdir, exist_ok=True)
    out = os.path.join(sdir, "out.json")
    env = shard_env(sdir)
    env["PYTHONPYCACHEPREFIX"] = os.path.join(scratch, "pyc")  # shared by shards
    env["VF_SHARD_BUDGET_S"] = str(max(5, int(timeout * 0.8)))
    # str/bytes hashing (set and dict-of-str iteration order) differs between real processes: shard 0 keeps 0, the others get a
    # seed derived from (VERIF_SEED, shard); a replay runs under the seed recorded with the violation
    env["PYTHONHASHSEED"] = os.environ.get("VF_HASHSEED") or ("0" if i == 0 else str((seed * 1000003 + i * 7919 + 1) % 2**32))
    # ... and the interpreter's optimisation level: one shard in eight runs under 'python -O' (PYTHONOPTIMIZE=1 in many
    # deployments), where assert statements are compiled away
    optimize = os.environ.get("VF_OPTIMIZE") == "1" or (os.environ.get("VF_OPTIMIZE") is None and i % 8 == 6)
    cmd = [PY] + (["-O"] if optimize else []) + ["-m", "vf.shard", prop, tier, str(seed), str(i), str(n), sdir, out]
    env["PYTHONOPTIMIZE"] = "1" if optimize else ""
    if not optimize:
        env.pop("PYTHONOPTIMIZE")
    cwd = HERE
    if replay:
        cmd.append(replay)
        try:
            with open(replay) as f:
                rj = json.load(f)
            if rj.get("hash_seed") is not None:
                env["PYTHONHASHSEED"] = str(rj["hash_seed"])
            env["VF_NO_CET"] = "1" if rj.get("no_cet") else "0"
            if rj.get("optimize") and "-O" not in cmd:
                cmd.insert(1, "-O")
                env["PYTHONOPTIMIZE"] = "1"
        except Exception:  # noqa
            pass
    elif i % 2 == 1:
        cwd = sdir  # the current directory is part of the environment, too: odd shards run from their scratch directory
    env["VF_CWD_KIND"] = "verif" if cwd == HERE else "scratch"
    t0 = time.time()
    try:
        p = subprocess.run(cmd, cwd=cwd, env=env, timeout=timeout, stdout=subprocess.PIPE,
                           stderr=subprocess.STDOUT)
        status = p.returncode
        tail = p.stdout.decode("utf-8", "replace")[-2000:]
    except subprocess.TimeoutExpired as e:
        status = "timeout"
        tail = (e.stdout or b"").decode("utf-8", "replace")[-2000:]
    rep = None
    if os.path.exists(out):
        try:
            with open(out) as f:
                rep = json.load(f)
        except Exception as e:  # noqa
            tail += f"\n[unreadable shard report: {e}]"
    return {"shard": i, "status": status, "tail": tail, "report": rep, "wall_s": time.time() - t0}


def main(argv):
    args = [a for a in argv if not a.startswith("--")]
    replay = None
    if "--replay" in argv:
        replay = os.path.abspath(argv[argv.index("--replay") + 1])
        args = [a for a in args if os.path.abspath(a) != replay]
    if not args:
        print(__doc__)
        return 2
    prop = args[0].upper()
    tier = args[1] if len(args) > 1 else os.environ.get("VERIF_TIER", "quick")
    if tier not in ("quick", "thorough"):
        print(f"unknown tier {tier!r}")
        return 2
    try:
        seed = int(os.environ.get("VERIF_SEED", "0") or 0)
    except ValueError:
        seed = 0
    mod = importlib.import_module(f"vf.checks.{prop.lower()}")
    t0 = time.time()
    scratch = tempfile.mkdtemp(prefix=f"vf-{prop}-")
    try:
        return drive(mod, prop, tier, seed, scratch, replay, t0)
    finally:
        shutil.rmtree(scratch, ignore_errors=True)


def out_root():
    """Evidence and replay files are only kept under /verif for runs against /repo itself;
    runs against a scratch copy (VF_REPO=...) write to /tmp/vf-alt so they never pass for evidence."""
    if os.path.realpath(os.environ.get("VF_REPO", "/repo")) == "/repo":
        return HERE
    return "/tmp/vf-alt"


def drive(mod, prop, tier, seed, scratch, replay, t0):
    OUT = out_root()
    n = 1 if replay else mod.shards(tier)
    timeout = mod.timeout(tier)
    workers = min(n, int(os.environ.get("VF_JOBS", "16")))
    results = []
    with concurrent.futures.ThreadPoolExecutor(max_workers=workers) as ex:
        futs = [ex.submit(run_one, prop, tier, seed, i, n, scratch, timeout, replay) for i in range(n)]
        for f in futs:
            results.append(f.result())

    merged = {
        "evaluations": 0, "distinct": set(), "distinct_by_construction": 0, "samples": [],
        "violations": {}, "counters": {}, "sets": {}, "notes": [], "inconclusive": [],
    }
    for r in results:
        rep = r["report"]
        if r["status"] != 0 or rep is None:
            merged["inconclusive"].append(f"shard {r['shard']} status={r['status']}: {r['tail'][-300:]}")
            if rep is None:
                continue
        if rep.get("error"):
            merged["inconclusive"].append(f"shard {r['shard']} crashed: {rep['error'][-600:]}")
        merged["evaluations"] += rep["evaluations"]
        merged["distinct"].update(rep["distinct"])
        merged["distinct_by_construction"] += rep["distinct_by_construction"]
        for s in rep["samples"]:
            if len(merged["samples"]) < 8:
                merged["samples"].append(s)
        for k, v in rep["violations"].items():
            m = merged["violations"].setdefault(k, {"count": 0, "msg": v["msg"], "cases": [], "host_tz": rep.get("host_tz"), "hash_seed": rep.get("hash_seed"), "optimize": rep.get("optimize"), "no_cet": rep.get("no_cet")})
            m["count"] += v["count"]
            m["cases"].extend(v["cases"][: max(0, 3 - len(m["cases"]))])
        for k, v in rep["counters"].items():
            merged["counters"][k] = merged["counters"].get(k, 0) + v
        for k, v in rep["sets"].items():
            merged["sets"].setdefault(k, set()).update(v)
        merged["notes"].extend(rep["notes"][:5])
        merged["inconclusive"].extend(rep["inconclusive"])

    if hasattr(mod, "finalize") and not replay:
        mod.finalize(merged, tier)

    # minimum observations required from the deciding monitors
    if not replay:
        for name, need in getattr(mod, "MIN_COUNTERS", {}).get(tier, {}).items():
            got = merged["counters"].get(name, 0)
            if got < need:
                merged["inconclusive"].append(f"monitor counter {name}={got} < required {need}")

    known = {(k["property"], k["key"]): k for k in load_known()}
    new_viol, known_seen = [], []
    for key, v in sorted(merged["violations"].items()):
        entry = known.get((prop, key))
        if entry is not None and entry.get("status") == "known":
            known_seen.append((key, entry, v))
        else:
            new_viol.append((key, v))

    distinct = len(merged["distinct"]) + merged["distinct_by_construction"]
    wall = round(time.time() - t0, 2)
    coverage = {
        "evaluations": merged["evaluations"],
        "distinct_nontrivial": distinct,
        "rule": mod.RULE,
        "samples": merged["samples"] or ["(no sample recorded)"],
        "shards": len(results),
        "counters": dict(sorted(merged["counters"].items())),
        "sets": {k: {"n": len(v), "some": sorted(v)[:12]} for k, v in sorted(merged["sets"].items())},
        "repo": os.path.realpath(os.environ.get("VF_REPO", "/repo")),
        "known_findings_seen": [k for k, _, _ in known_seen],
        "violation_keys": [k for k, _ in new_viol],
        "inconclusive_reasons": merged["inconclusive"][:10],
        "notes": merged["notes"][:10],
    }
    if getattr(mod, "EXHAUSTIVE", {}).get(tier):
        coverage["exhaustive"] = True
        coverage["exhaustive_part"] = mod.EXHAUSTIVE[tier]
    if hasattr(mod, "extra_coverage"):
        coverage.update(mod.extra_coverage(merged, tier))
    evidence = {
        "property_id": prop,
        "tier": tier,
        "seed": seed,
        "level": mod.LEVEL,
        "coverage": coverage,
        "assumptions": list(getattr(mod, "ASSUMPTIONS", [])),
        "wall_s": wall,
        "violations": sum(v["count"] for _, v in new_viol),
    }

    # replay files
    lines = []
    for key, v in new_viol:
        rdir = os.path.join(OUT, "replays", prop)
        os.makedirs(rdir, exist_ok=True)
        rpath = os.path.join(rdir, safe_name(key) + ".json")
        with open(rpath, "w") as f:
            json.dump({"property": prop, "key": key, "msg": v["msg"], "count": v["count"],
                       "seed": seed, "tier": tier, "host_tz": v.get("host_tz"), "hash_seed": v.get("hash_seed"), "optimize": v.get("optimize"), "no_cet": v.get("no_cet"), "case": v["cases"][0] if v["cases"] else None,
                       "more_cases": v["cases"][1:]}, f, indent=1)
        lines.append(f"VIOLATION property={prop} replay={rpath}")
        lines.append(f"  key={key} count={v['count']} :: {v['msg'][:300]}")

    if not replay:
        os.makedirs(os.path.join(OUT, "evidence"), exist_ok=True)
        with open(os.path.join(OUT, "evidence", f"{prop}.json"), "w") as f:
            json.dump(evidence, f, indent=1, sort_keys=True)

    for key, entry, v in known_seen:
        print(f"KNOWN-FINDING: property={prop} {key} ({v['count']}x) {entry.get('what', '')}")
    for ln in lines:
        print(ln)
    summary = (f"property={prop} tier={tier} seed={seed} evaluations={merged['evaluations']} "
               f"distinct_nontrivial={distinct} shards={len(results)} wall_s={wall}")
    if new_viol:
        print("RESULT VIOLATION " + summary)
        return 1
    if replay:
        print("RESULT HELD(replay) " + summary)
        return 0
    if merged["inconclusive"] or merged["evaluations"] < 1 or distinct < 2:
        reason = "; ".join(merged["inconclusive"][:3]) or "deciding monitor observed too little"
        print(f"INCONCLUSIVE property={prop} reason={reason[:800]}")
        print("RESULT INCONCLUSIVE " + summary)
        return 2
    print("RESULT HELD " + summary)
    return 0


if __name__ == "__main__":
    sys.exit(main(sys.argv[1:]))
