"""C01 - serialize-then-parse returns the same model, every class and wire form.

Monitor: for each generated instance the bytes of OFXClient.serialize() are fed
to OFXTree.parse().convert(); the converted model's canonical snapshot must
equal the instance's snapshot (taken after construction), the header version
must be the one asked for, and the instance must be unchanged by the call.
The C04 init post-condition and the C11 to_etree post-condition ride along.
"""
import io
import random

from vf.core import hostile_history
from vf.gen import instances
from vf.monitors import online
from vf.oracles import modelwalk, ref_decl

PROP = "C01"
LEVEL = "exploration"
TECHNIQUE = "round-trip runtime monitor: bytes from OFXClient.serialize -> OFXTree.parse/convert compared structurally with the instance snapshot by an independent model walker; all classes x generated instances x 6 wire forms; init and to_etree post-condition monitors ride along"
RULE = ("every exported Aggregate class (as root) x profiles {minimal, maximal with >=2 members of each list type shuffled, random with "
        "hostile values: & < > quotes, Latin-1, cp1252-only, BMP, astral, entity look-alikes, at-limit lengths, us-resolution datetimes in "
        "all zones, decimals of every scale} x 6 wire forms {XML, SGML closed, SGML unclosed} x {pretty, plain} with header versions rotating "
        "over 102,103,151,160 / 200..220, plus bare ET.tostring(to_etree()). A case = (class, generator seed string, wire form); "
        "non-trivial = instance with at least one child; distinct by (class, snapshot fingerprint, form)")
RULE += ' Added later: instances built with keyword=None for the children they lack; a >64 KiB document at several byte alignments; after the round trip a nested value is assigned / a member replaced and the instance written again (compared with a never-written twin).'
ASSUMPTIONS = ["modelwalk.py equality = the property's (ms instants, decimal value+exponent, exact strings)",
               "generator instances are valid (a constructor rejection of a generated candidate is reported, not resampled)",
               "UNSPECIFIED, not generated: decimals with positive exponent; strings with leading/trailing whitespace or empty; list members out "
               "of run order in TAX1099INT_V100 (cross-run order cannot be carried by any wire form)"]
LEVEL_TEXT = ("Exploration over all ~390 classes: thousands of generated instances per run go through the real serializer and the real parser "
              "in all six wire forms and are compared by an independent walker. Classes and forms are enumerated; values are sampled from "
              "hostile strata. What is claimed: held on the instances generated, for every class and form.")
LEVEL_NOTE = "Trusts the instance generator's notion of validity (derived from class declarations) and modelwalk equality."
DESIGN_REF = "DESIGN.md §3 C01"
MIN_COUNTERS = {"quick": {"roundtrips": 8000, "classes_covered": 380, "monitor_init_postcondition_calls": 20000, "monitor_to_etree_postcondition_calls": 20000},
                "thorough": {"roundtrips": 300000, "classes_covered": 380, "monitor_init_postcondition_calls": 200000, "monitor_to_etree_postcondition_calls": 200000}}

FORMS = [("xml", 203, False, True), ("xml-pretty", 220, True, True), ("sgml-closed", 102, False, True), ("sgml-closed-pretty", 160, True, True),
         ("sgml-unclosed", 103, False, False), ("sgml-unclosed-pretty", 151, True, False)]
V1 = [102, 103, 151, 160]
V2 = [200, 201, 202, 203, 210, 211, 220]


def shards(tier):
    return 16


def timeout(tier):
    return 900 if tier == "quick" else 5400


def diff_kind(d):
    if d is None:
        return None
    tail = d.split(":", 1)[1] if ":" in d else d
    for needle, kind in (("'str'", "string"), ("'dt_ms'", "datetime"), ("'tm_ms'", "time"), ("'dec'", "decimal"), ("'int'", "integer"),
                         ("'bool'", "bool"), ("list members", "list-members"), ("class ", "class"), ("children present", "children")):
        if needle in tail:
            return kind
    return "other"


def roundtrip(ctx, inst, s0, form, version, pretty, close, case):
    from ofxtools.Client import OFXClient
    from ofxtools.Parser import OFXTree

    ctx.ev()
    ctx.count("roundtrips")
    fam = form.replace("-pretty", "")
    try:
        data = OFXClient("http://localhost", version=version, prettyprint=pretty, close_elements=close).serialize(inst)
    except Exception as e:
        ctx.violation(f"{fam}/serialize-raises-{type(e).__name__}", f"serialize({type(inst).__name__}) raised {e!r}", case)
        return
    try:
        tree = OFXTree()
        tree.parse(io.BytesIO(data))
    except Exception as e:
        ctx.violation(f"{fam}/parse-raises-{type(e).__name__}", f"parse raised {e!r} on own output {data[-200:]!r}", case)
        return
    hv = getattr(tree.header, "version", None)
    if hv != version:
        ctx.violation(f"{fam}/header-version", f"header says {hv!r}, asked for {version}", case)
    try:
        model = tree.convert()
    except Exception as e:
        msg = str(e)
        sub = "out-of-order" if "out of order" in msg else "unknown-class" if "doesn't define" in msg else "other"
        ctx.violation(f"{fam}/convert-raises-{type(e).__name__}/{sub}", f"convert raised {e!r} on own output of {type(inst).__name__}", case)
        return
    d = modelwalk.diff(s0, modelwalk.snap(model))
    if d:
        ctx.violation(f"{fam}/model-differs/{diff_kind(d)}", f"{type(inst).__name__} via {form} v{version}: {d}", case)
    after = modelwalk.snap(inst, exact=True)
    return after


def bare_roundtrip(ctx, inst, s0, case):
    """Header-less variant: ET.tostring(to_etree()) fed to the library's own TreeBuilder.
    (Not through a real XML parser: that would decode entities a second time - the
    library's element trees keep data entity-escaped, which is C02's statement.)"""
    import xml.etree.ElementTree as ET
    from ofxtools.models.base import Aggregate
    from ofxtools.Parser import TreeBuilder

    ctx.ev()
    ctx.count("bare_roundtrips")
    try:
        text = ET.tostring(inst.to_etree(), encoding="unicode", short_empty_elements=False)
        b = TreeBuilder()
        b.feed(text)
        back = Aggregate.from_etree(b.close())
    except Exception as ex:
        ctx.violation(f"etree/raises-{type(ex).__name__}", f"to_etree/TreeBuilder/from_etree of {type(inst).__name__} raised {ex!r}", case)
        return
    d = modelwalk.diff(s0, modelwalk.snap(back))
    if d:
        ctx.violation(f"etree/model-differs/{diff_kind(d)}", f"{type(inst).__name__} via ET.tostring: {d}", case)


def one_instance(ctx, name, cls, profile, seedstr, forms):
    case = {"cls": name, "profile": profile, "seedstr": seedstr}
    ctx.current_case = case
    try:
        # "<profile>+none": the children the instance does not have are handed to the constructors as keyword=None
        inst = instances.build(cls, random.Random(seedstr), profile.split("+")[0], opts=instances.Opts(explicit_none=profile.endswith("+none")))
        if profile.endswith("+none"):
            ctx.count("instances_built_with_explicit_None")
    except instances.ConstructorRejected as e:
        ctx.ev()
        ctx.violation(f"constructor-rejects-valid-candidate/{e.clsname}", str(e)[:400], case)
        return
    except instances.GenGiveUp:
        ctx.count("gen_giveup")
        return
    if ctx.replay_case is not None:
        hostile_history.replay_history(ctx.replay_case["case"].get("broken_before"))
    else:
        if ctx.rng.random() < 0.06:
            hostile_history.disturb(ctx.rng)  # a broken file right before (not judged): the round trip must not notice
            ctx.count("after_broken_document")
        case["broken_before"] = list(hostile_history.HISTORY[-40:])
    s0 = modelwalk.snap(inst)
    exact0 = modelwalk.snap(inst, exact=True)
    nodes = modelwalk.count_nodes(s0)
    ctx.count("instance_nodes", nodes)
    fpr = modelwalk_fp(s0)
    for (form, version, pretty, close) in forms:
        c = dict(case, form=form, version=version)
        after = roundtrip(ctx, inst, s0, form, version, pretty, close, c)
        if after is not None and after != exact0:
            ctx.violation("instance-mutated-by-serialize", f"{name}: instance changed by serialize/parse: {modelwalk.diff(exact0, after)}", c)
        if nodes > 1:
            ctx.distinct((name, fpr, form))
    if nodes > 1:
        bare_roundtrip(ctx, inst, s0, dict(case, form="etree"))
        rewrite_after_change(ctx, inst, cls, profile, seedstr, dict(case, form="rewrite"))
    return inst


def _string_leaves(agg, path=()):
    """(path of attribute names, attribute) of string elements in NESTED aggregates (below the root)."""
    from ofxtools import Types as T
    from ofxtools.models.base import Aggregate

    out = []
    for k, d in ref_decl.decl(type(agg)).items():
        v = agg.__dict__.get(k)
        if isinstance(v, Aggregate):
            out += _string_leaves(v, path + (k,))
        elif path and type(d) in (T.String, T.NagString) and isinstance(v, str) and v != "Z":
            out.append((path, k))
    return out


def rewrite_after_change(ctx, inst, cls, profile, seedstr, case):
    """An instance that has been written is changed (a nested value assigned, a list member replaced) and written again: the file
    shows the change - it equals what an equal instance that was never written before gives."""
    import xml.etree.ElementTree as ET

    try:
        twin = instances.build(cls, random.Random(seedstr), profile.split("+")[0], opts=instances.Opts(explicit_none=profile.endswith("+none")))
    except Exception:
        return
    changed = False
    leaves = _string_leaves(inst)
    if leaves:
        path, attr = leaves[len(leaves) // 2]
        for root in (inst, twin):
            node = root
            for k in path:
                node = node.__dict__[k]
            try:
                setattr(node, attr, "Z")
            except Exception:
                return
        changed = True
    a, b = list(list.__iter__(inst)), list(list.__iter__(twin))
    if len(a) >= 2 and type(a[0]) is type(a[-1]) and modelwalk.snap(a[0]) != modelwalk.snap(a[-1]):
        list.__setitem__(inst, 0, a[-1])
        list.__setitem__(twin, 0, b[-1])
        changed = True
    if not changed:
        return
    ctx.ev()
    ctx.count("rewritten_after_change")
    try:
        got, want = ET.tostring(inst.to_etree()), ET.tostring(twin.to_etree())
    except Exception as e:
        ctx.violation(f"rewrite/raises-{type(e).__name__}", f"{type(inst).__name__}: writing again after a change raised {e!r}", case)
        return
    if got != want:
        ctx.violation("rewrite/stale-output-after-change", f"{type(inst).__name__}: written, changed, written again: the second file does not show the change "
                      f"(differs from a never-written equal instance): {got[-160:]!r} vs {want[-160:]!r}", case)


def modelwalk_fp(s):
    from vf.core.ctx import fp

    return fp(s)


def run_shard(ctx):
    online.set_ctx(ctx)
    online.install_init_monitor()
    online.install_to_etree_monitor()
    classes = list(ref_decl.all_classes().items())
    if ctx.shard % 2 == 1:
        ctx.count("base_classes_used_first", ref_decl.touch_base_classes())
    thorough = ctx.tier == "thorough"
    nrandom = 8 if not thorough else 220
    for ci, (name, cls) in enumerate(classes):
        if ci % ctx.nshards != ctx.shard:
            continue
        if ctx.time_left() < 15:
            ctx.inconclusive_because(f"time budget exhausted before class {name}")
            break
        ctx.add("classes_covered_set", name)
        ctx.count("classes_covered")
        profiles = ["min", "max"] + ["random"] * nrandom + ["min+none", "random+none"] + (["random+none"] * 20 if thorough else [])
        for pi, profile in enumerate(profiles):
            seedstr = f"C01/{ctx.seed}/{name}/{profile}/{pi}"
            forms = []
            for fi, (form, ver, pretty, close) in enumerate(FORMS):
                pool = V2 if ver >= 200 else V1
                forms.append((form, pool[(ci + pi + fi) % len(pool)], pretty, close))
            inst = one_instance(ctx, name, cls, profile, seedstr, forms)
            if inst is not None and pi == 2 and ci % 40 == 0:
                from ofxtools.Client import OFXClient
                data = OFXClient("http://x", version=151, prettyprint=False, close_elements=False).serialize(inst)
                ctx.sample({"cls": name, "seedstr": seedstr, "form": "sgml-unclosed v151", "bytes_tail": data[-300:].decode("utf_8", "replace")})
    big_documents(ctx)
    online.flush(ctx)


def big_documents(ctx, only=None):
    """Files well beyond 64 KiB, full of multi-byte characters, at several byte alignments (readers that work in blocks)."""
    import datetime
    import decimal
    from ofxtools.models import BANKTRANLIST, STMTTRN
    from ofxtools.utils import UTC

    for align in ([only] if only is not None else range(ctx.shard % 4, 12, 4)):
        t0 = datetime.datetime(2020, 1, 1, tzinfo=UTC)
        trns = [STMTTRN(trntype="DEBIT", dtposted=t0 + datetime.timedelta(days=i), trnamt=decimal.Decimal(-i) / 100, fitid=f"F{i:05d}",
                        name=("汉é" * 14)[: 28] + ("€" if i % 2 else "ü"), memo=("Ωж😀" * 30)[: 80 + (i * 7 + align) % 60] + "x" * align)
                for i in range(420)]
        inst = BANKTRANLIST(*trns, dtstart=t0, dtend=t0 + datetime.timedelta(days=500))
        s0 = modelwalk.snap(inst)
        case = {"cls": "BANKTRANLIST", "big": align}
        ctx.current_case = case
        for (form, version, pretty, close) in FORMS:
            roundtrip(ctx, inst, s0, form, version, pretty, close, dict(case, form=form, version=version))
        ctx.count("big_documents")


def replay(ctx, case):
    online.set_ctx(ctx)
    online.install_init_monitor()
    online.install_to_etree_monitor()
    if case.get("big") is not None:
        big_documents(ctx, only=case["big"])
        online.flush(ctx)
        return
    cls = ref_decl.all_classes()[case["cls"]]
    forms = [(f, v, p, c) for (f, v, p, c) in FORMS]
    if case.get("form") and case["form"] != "etree":
        forms = [(f, case.get("version", v), p, c) for (f, v, p, c) in FORMS if f == case["form"]]
    one_instance(ctx, case["cls"], cls, case["profile"], case["seedstr"], forms)
    online.flush(ctx)
