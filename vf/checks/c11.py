"""C11 - everything the serializer writes is lexically valid OFX for its declared type.

Online monitors: (1) post-condition on Aggregate.to_etree (every data element's
text against the lexical rule of its declared type); (2) the serialized bytes
of all wire forms, read by the reference tokenizer: structure intact, no raw
'<' in data, every '&' starts an entity.  Outcome oracle: the library either
refused the value (at construction or at write) or wrote something valid.
"""
import datetime
import decimal
import random
import re

from vf.core import hostile_history
from vf.gen import instances, values
from vf.monitors import online
from vf.oracles import ref_decl, ref_sgml

PROP = "C11"
LEVEL = "exploration"
TECHNIQUE = "online post-condition monitor on Aggregate.to_etree (lexical predicate per declared type) + wire scan of OFXClient.serialize output by a reference tokenizer, under a hostile-value workload over all classes"
RULE = ("instances of every exported class built with HOSTILE values: decimals over the whole Decimal range (exponents -30..+30, normalize() "
        "results, signed zeros, NaN, sNaN, +-Infinity, floats incl. nan/inf, ints), integers incl. bool and 10^n-1, datetimes with years 1..9999 in "
        "all zones incl. custom tzinfo, strings over all printable characters, entity look-alikes and stored literal entities; each instance "
        "that the constructor accepts is written in XML, closed SGML, unclosed SGML (pretty or not). A case = (class, seed, form); non-trivial = "
        "the instance was accepted and at least one data element was checked")
ASSUMPTIONS = ["lexical rules from ref_types.py; entity set &amp; &lt; &gt; &quot; &apos; &nbsp; &#n; &#xh;",
               "'refused' = any exception at construction or at write; control characters other than TAB/LF are not generated",
               "values also reach repeated data elements through the list interface after construction (append/insert/extend/item assignment/+=): the writer is then the place to refuse them"]
LEVEL_TEXT = ("Exploration with an always-on post-condition: the monitor judges every data element written by every to_etree() call in the run "
              "(hundreds of thousands of leaves), including those of the C01/C04 workloads it rides on; the hostile stratum aims at the values "
              "str()/strftime() format differently from OFX.")
LEVEL_NOTE = "Trusts ref_types lexical predicates and ref_sgml; only values reachable through the public constructors are generated."
DESIGN_REF = "DESIGN.md §3 C11"
MIN_COUNTERS = {"quick": {"monitor_to_etree_leaves_checked": 15000, "wire_scans": 4000, "hostile_values_offered": 8000, "classes": 380},
                "thorough": {"monitor_to_etree_leaves_checked": 250000, "wire_scans": 50000, "hostile_values_offered": 100000, "classes": 380}}

D = decimal.Decimal
ENTITY = re.compile(r"&(amp|lt|gt|quot|apos|nbsp|#[0-9]+|#x[0-9A-Fa-f]+);")
FORMS = [("xml", 203, False, True), ("xml-pretty", 211, True, True), ("sgml-closed", 102, False, True),
         ("sgml-unclosed", 103, False, False), ("sgml-unclosed-pretty", 160, True, False)]


def shards(tier):
    return 16


def timeout(tier):
    return 900 if tier == "quick" else 5400


class Tz(datetime.tzinfo):
    def __init__(self, minutes, name):
        self.o, self.n = datetime.timedelta(minutes=minutes), name

    def __getinitargs__(self):  # copy / pickle support, as zoneinfo and pytz zones have
        return (self.o // datetime.timedelta(minutes=1), self.n)

    def utcoffset(self, dt):
        return self.o

    def tzname(self, dt):
        return self.n

    def dst(self, dt):
        return None


POOL = ["p" * 23, "q" * 33, "long text number three, forty-one chars ....", "w" * 100, "z" * 256, "k" * 10, "m" * 5, "account-key-of-23-chars"]


class Labelled(str):
    """A str whose printed form is not its characters."""

    def __str__(self):
        return f"{str.__str__(self)} <label & more>"

    def __format__(self, spec):
        return self.__str__()


import enum  # noqa: E402


class Tokens(str, enum.Enum):
    CHECKING = "CHECKING"
    SAVINGS = "SAVINGS"
    ENG = "ENG"
    INFO = "INFO"
    DEBIT = "DEBIT"
    CREDIT = "CREDIT"
    USD = "USD"
    Y = "Y"


def hostile(ctx):
    def fn(rng, desc, clsname, attr):
        from ofxtools import Types as T

        if isinstance(desc, T.ListElement):
            desc = desc.converter
        if rng.random() < 0.35:
            return NotImplemented  # ordinary value
        ctx.count("hostile_values_offered")
        if isinstance(desc, T.Decimal):
            r = rng.random()
            if r < 0.25:
                return D(rng.randint(-10**6, 10**6)).scaleb(rng.randint(-30, 30))
            if r < 0.40:
                return D(rng.randint(1, 10**6) * 10**rng.randint(1, 6)).normalize()
            if r < 0.50:
                return rng.choice([D("-0"), D("0E+3"), D("-0E-5"), D("0E-30"), D("1E+2"), D("1E-7"), D("1E+28"), D("1E+25"), D("-9.99E+400"), D("1E-400")])
            if r < 0.62:
                return rng.choice([D("NaN"), D("sNaN"), D("Infinity"), D("-Infinity"), D("-NaN")])
            if r < 0.74:
                return rng.choice([float("nan"), float("inf"), -float("inf"), 1e300, 1.5, 0.1, -0.0, 2.5e-8])
            if r < 0.82:
                return rng.choice([0, -1, 10**30, True])
            if r < 0.9:
                return rng.choice(["1e3", "1E-7", "NaN", "Infinity", "-inf", "1,5", "+.5", "12."])
            return rng.choice([(0, (1, 2, 3), 2), (1, (1,), -9), (0, (), "n")])
        if isinstance(desc, T.Integer):
            hi = 10**desc.length - 1 if desc.length is not None else 10**12
            return rng.choice([True, False, hi, 0, -0, "+7", "007", 7.0, D(3), "١٢" if desc.length is None else "5"])
        if isinstance(desc, T.Time):
            off = rng.randint(-12 * 60, 14 * 60)
            return datetime.time(rng.randint(0, 23), rng.randint(0, 59), rng.randint(0, 59), rng.choice([0, 999999, 999500]),
                                 tzinfo=rng.choice([datetime.timezone(datetime.timedelta(minutes=off), "N"), Tz(off, None), Tz(off, "<&>")]))
        if isinstance(desc, T.DateTime):
            y = rng.choice([1, 9, 99, 999, 1000, 1899, 9999, rng.randint(1, 9999)])
            off = rng.randint(-12 * 60, 14 * 60)
            tz = rng.choice([datetime.timezone(datetime.timedelta(minutes=off)), datetime.timezone(datetime.timedelta(minutes=off, seconds=30)),
                             Tz(off, None), Tz(off, "x]y"), Tz(off, "A&B<")])
            try:
                if rng.random() < 0.15:
                    # the two ends of the calendar, where rounding to milliseconds or shifting the zone has nowhere to carry to
                    return rng.choice([datetime.datetime.max, datetime.datetime(9999, 12, 31, 23, 59, 59, rng.choice([999499, 999500, 0])),
                                       datetime.datetime.min, datetime.datetime(1, 1, 1, 0, 0, 0, 499)]).replace(tzinfo=tz)
                return datetime.datetime(y, rng.randint(1, 12), rng.randint(1, 28), rng.randint(0, 23), rng.randint(0, 59), rng.randint(0, 59),
                                         rng.choice([0, 999999, 999500, 499]), tzinfo=tz)
            except Exception:
                return NotImplemented
        if isinstance(desc, T.OneOf):
            tok = rng.choice([t for t in desc.valid if isinstance(t, str)] or ["X"])
            if rng.random() < 0.3:
                # a token that IS the declared one, held in an application's own string type (a str-based Enum prints its member
                # name, a decorated str its label): what goes out is the token's characters
                return rng.choice([Labelled(tok), Tokens(tok) if tok in Tokens._value2member_map_ else Labelled(tok)])
            return rng.choice([tok.lower(), tok.title(), tok.swapcase(), tok + " ", " " + tok])
        if isinstance(desc, T.String):
            r = rng.random()
            if desc.length and rng.random() < 0.12:
                # over the limit by the length of entity TEXT: the stored value is e.g. 'xxxxxxxx&amp;' (supplied double-escaped);
                # a limit check that decodes once more would count it as 'xxxxxxxx&'
                k = rng.randint(max(0, desc.length - 3), desc.length)
                return "x" * k + rng.choice(["&amp;amp;", "&amp;lt;", "&amp;quot;&amp;quot;", "&amp;nbsp;"])
            if r < 0.25:
                # texts from a small shared pool, longer than many limits: a wide field accepts them, a narrow one must refuse
                return POOL[rng.randrange(len(POOL))]
            if r < 0.5:
                return values.gen_str(rng, desc.length)
            cap = desc.length or 30
            s = rng.choice(["<", "&", "a<b&c>d", "&lt", "&amp", "&#60;", "&#x3c;<", "]]>", "<![CDATA[", "</OFX>", "&&&", "<<>>", "R&amp;amp;D <lab> & co",
                            "&amp;lt;&lt;<", "\"'", "a\tb", "l1\nl2"])
            return s[:cap] if s[:cap].strip() else "x"
        return NotImplemented
    return fn


def wire_scan(ctx, name, form, data, elem, case):
    """The bytes as seen by the reference tokenizer."""
    ctx.ev()
    ctx.count("wire_scans")
    text = data.decode("utf_8")
    body = text[text.index("<" + name + ">"):]
    fam = form.replace("-pretty", "")
    try:
        tree = ref_sgml.parse(body)
    except ref_sgml.RefError as e:
        ctx.violation(f"wire/{fam}/not-well-formed", f"{name} via {form}: reference tokenizer rejects the output ({e}): ...{body[-160:]!r}", case)
        return
    # structure must be that of to_etree()
    def shape(t):
        return (t[0], [shape(c) for c in t[1]]) if isinstance(t[1], list) else (t[0],)

    def eshape(e):
        return (e.tag, [eshape(c) for c in e]) if (len(e) or not (e.text and e.text.strip())) else (e.tag,)
    if shape(tree) != eshape(elem):
        ctx.violation(f"wire/{fam}/structure-differs", f"{name} via {form}: tags/nesting on the wire differ from to_etree() (raw markup in data?)", case)
        return
    # every '&' in data starts an entity
    def datas(t):
        if isinstance(t[1], list):
            for c in t[1]:
                yield from datas(c)
        else:
            yield t[0], t[1]
    for tag, dtext in datas(tree):
        stripped = ENTITY.sub("", dtext)
        if "&" in stripped or "<" in stripped:
            ctx.violation(f"wire/{fam}/raw-markup-in-data", f"{name} via {form}: <{tag}> data {dtext[:60]!r} has a raw '&' or '<'", case)
            return


def mutate_members(ctx, inst, cls, rng):
    """Repeated data elements are plain list members: values put there AFTER construction (append / insert / extend / item
    assignment / +=) reach the writer unchecked by the constructor - the writer is the last place to refuse them (monitored)."""
    import copy
    from ofxtools import Types as T

    d = ref_decl.decl(cls)
    le = next((t for t in d.values() if ref_decl.kind_of(t) == "listelem"), None)
    if le is None:
        return
    conv = le.converter
    if isinstance(conv, T.Integer):
        bads = ["20x1", "1e3", "", " ", 10 ** ((conv.length or 12) + 1), "+-1", 1.5, "12 "]
    elif isinstance(conv, T.OneOf):
        bads = ["KLINGON", str(conv.valid[0]).lower(), str(conv.valid[0]) + "X", 7]
    elif isinstance(conv, T.Decimal):
        bads = ["1e3", "NaN", "1,2,3", float("inf"), D("Infinity"), "abc"]
    elif isinstance(conv, T.NagString):
        bads = ["<b>&", "a<b"]
    elif isinstance(conv, T.String):
        bads = ["x" * ((conv.length or 40) + 1), "a<b&c" + "y" * (conv.length or 40), 5]
    else:
        bads = ["yesterday", "2020-01-01", 5]
    for opname in ("append", "insert", "extend", "setitem", "iadd"):
        try:
            m = copy.deepcopy(inst)
        except Exception:
            ctx.count("copy_failed_not_judged")
            continue
        bad = rng.choice(bads)
        try:
            if opname == "append":
                m.append(bad)
            elif opname == "insert":
                m.insert(0, bad)
            elif opname == "extend":
                m.extend([bad])
            elif opname == "setitem":
                if len(m) == 0:
                    continue
                m[rng.randrange(len(m))] = bad
            else:
                m += [bad]
        except Exception:
            ctx.count("member_refused_by_list_interface")
            continue
        ctx.count("members_put_after_construction")
        try:
            m.to_etree()  # monitored: whatever it writes is checked against the element's declared type
            ctx.count("late_member_written")
        except Exception:
            ctx.count("late_member_refused_at_write")


def one(ctx, name, cls, seedstr, forms):
    from ofxtools.Client import OFXClient

    rng = random.Random(seedstr)
    case = {"cls": name, "seedstr": seedstr}
    if ctx.replay_case is not None:
        hostile_history.replay_history(ctx.replay_case["case"].get("broken_before"))
    else:
        if ctx.rng.random() < 0.06:
            hostile_history.disturb(ctx.rng)  # a broken document read (and refused) right before: must leave nothing behind
            ctx.count("after_broken_document")
        case["broken_before"] = list(hostile_history.HISTORY[-40:])
    ctx.current_case = case
    try:
        inst = instances.build(cls, rng, "random", opts=instances.Opts(value_fn=hostile(ctx), maxdepth=6))
    except instances.ConstructorRejected:
        ctx.count("refused_at_construction")
        return
    except Exception:
        ctx.count("gen_error")
        return
    ctx.count("instances_accepted")
    try:
        elem = inst.to_etree()  # monitored
    except Exception:
        ctx.count("refused_at_write")
        return
    ctx.count("instances_written")
    ctx.distinct((name, seedstr))
    # the same instance written by a thread whose arithmetic context is not the default one (few digits, small exponent range, no
    # traps; the "extended" context of the General Decimal Arithmetic specification): written as before, or refused
    import decimal as _d
    for hc in (_d.Context(prec=6, Emax=20, Emin=-20, traps=[]), _d.ExtendedContext):
        with _d.localcontext(hc):
            ctx.count("writes_under_foreign_arithmetic_context")
            try:
                inst.to_etree()  # monitored: every leaf text is put to the lexical predicate again
            except Exception:
                ctx.count("refused_at_write_under_foreign_context")
    mutate_members(ctx, inst, cls, rng)
    for form, ver, pretty, close in forms:
        try:
            data = OFXClient("http://x", version=ver, prettyprint=pretty, close_elements=close).serialize(inst)
        except Exception:
            ctx.count("refused_at_serialize")
            continue
        wire_scan(ctx, name, form, data, elem, dict(case, form=form))


def run_shard(ctx):
    try:
        ref_sgml.selftest()
    except AssertionError as e:
        ctx.inconclusive_because(f"ref_sgml self-test failed: {e}")
        return
    online.set_ctx(ctx)
    online.install_to_etree_monitor()
    online.install_init_monitor()
    classes = list(ref_decl.all_classes().items())
    per = 20 if ctx.tier == "quick" else 300
    for ci, (name, cls) in enumerate(classes):
        if ci % ctx.nshards != ctx.shard:
            continue
        if ctx.time_left() < 15:
            ctx.inconclusive_because(f"time budget exhausted before class {name}")
            break
        ctx.count("classes")
        for p in range(per):
            forms = [FORMS[(ci + p) % 5], FORMS[(ci + p + 2) % 5], FORMS[3]]
            one(ctx, name, cls, f"C11/{ctx.seed}/{name}/{p}", forms)
        if ci % 60 == 0:
            ctx.sample({"cls": name, "seedstr": f"C11/{ctx.seed}/{name}/0", "hostile": "decimals/ints/datetimes/strings as described in rule"})
    online.flush(ctx)
    if ctx.tier == "thorough" and ctx.shard == 0:
        # second, independent workload: the repository's own 3592 tests, each an execution the monitor watches
        from vf.core import suite_under_monitors
        suite_under_monitors.run(ctx, "suite", ('to_etree/',))


def replay(ctx, case):
    ref_sgml.selftest()
    online.set_ctx(ctx)
    online.install_to_etree_monitor()
    online.install_init_monitor()
    name = case["cls"]
    if "seedstr" in case:
        one(ctx, name, ref_decl.all_classes()[name], case["seedstr"], FORMS)
    else:
        for p in range(200):
            one(ctx, name, ref_decl.all_classes()[name], f"C11/replay/{name}/{p}", FORMS)
    online.flush(ctx)
