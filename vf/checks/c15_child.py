"""Child process for the C15 crash-point monitor.

usage: python -m vf.checks.c15_child <mode> <json-args>
 mode 'crash-line k' : request_profile against a server sending a NEWER profile; os._exit(137) at the
                       k-th sys.monitoring LINE event inside request_profile AFTER the response arrived.
                       Prints 'LINES n' (number of such events) when the call completes without reaching k.
 mode 'crash-io p'   : same, but the process dies inside the file operation named p
                       (open-after, write-half, write-full-noclose, close-before-replace, replace-before, replace-after).
 mode 'followup'     : fresh process: report the cache state, then two more request_profile calls
                       (server consistent: 'up to date' iff asked date >= its date; then a newer profile).
The XDG_* environment selects the cache directory (shared between the crashing and the follow-up process).
"""
import os as _os
import sys as _sys

if _os.environ.get("VF_NO_CET") == "1" and "xml.etree.ElementTree" not in _sys.modules:
    _sys.modules["_elementtree"] = None  # child interpreters run without the C accelerator when their shard does

import builtins
import json
import os
import re
import sys
import tempfile


def setup(repo):
    sys.path.insert(0, repo)
    sys.path.insert(1, os.path.dirname(os.path.dirname(os.path.dirname(os.path.abspath(__file__)))))
    from vf.net import ofxserver
    from vf.net.fakehttp import FakeNet, Reply
    return ofxserver, FakeNet, Reply


def asked_date(body):
    m = re.search(rb"<DTPROFUP>([^<\r\n]+)", body)
    return m.group(1).decode() if m else None


def cache_files():
    from ofxtools import config
    d = config.DATADIR / "fiprofiles"
    if not d.exists():
        return {}
    return {p.name: p.read_bytes() for p in sorted(d.iterdir()) if p.name.endswith(".profrs")}


URL = "https://ofx.crash.example/prof"


def main():
    mode = sys.argv[1]
    args = json.loads(sys.argv[2])
    repo = os.environ["VF_REPO"]
    ofxserver, FakeNet, Reply = setup(repo)
    from ofxtools.Client import OFXClient
    net = FakeNet().install()
    arrived = {"v": False}

    def newer(rec):
        arrived["v"] = True
        return Reply(ofxserver.profile_ok(args["dt"], URL, URL, finame="NEW", extra=args.get("extra", "")))

    client = OFXClient(URL, org="CRASH", fid="1")
    if mode == "crash-line":
        from vf.monitors.linemon import LineMon
        k = args["k"]
        counter = {"n": 0}

        class LM(LineMon):
            def _line(self, code, lineno):
                if not code.co_filename.startswith(self.prefix):
                    return sys.monitoring.DISABLE
                if code.co_name == "request_profile" and arrived["v"]:
                    counter["n"] += 1
                    if counter["n"] == k:
                        print(f"CRASH line={lineno}", flush=True)
                        os._exit(137)

        net.handler = newer
        lm = LM(repo).start()
        client.request_profile()
        lm.stop()
        print(f"LINES {counter['n']}", flush=True)
        return
    if mode == "crash-io":
        point = args["point"]
        from ofxtools import config
        cdir = str(config.DATADIR / "fiprofiles")

        def die(tag):
            print(f"CRASH io={tag}", flush=True)
            os._exit(137)

        class Proxy:
            def __init__(self, f):
                self._f = f
                self.name = getattr(f, "name", None)

            def write(self, data):
                if point == "write-half":
                    self._f.write(data[: len(data) // 2])
                    self._f.flush()
                    die(point)
                r = self._f.write(data)
                if point == "write-full-noclose":
                    self._f.flush()
                    die(point)
                return r

            def __enter__(self):
                return self

            def __exit__(self, *a):
                self._f.close()
                if point == "close-before-replace":
                    die(point)
                return False

            def __getattr__(self, n):
                return getattr(self._f, n)

        real_open, real_ntf, real_replace = builtins.open, tempfile.NamedTemporaryFile, os.replace

        def is_cache_write(path, mode):
            return "w" in mode and str(path).startswith(cdir)

        def my_open(path, mode="r", *a, **kw):
            f = real_open(path, mode, *a, **kw)
            if isinstance(path, (str, os.PathLike)) and is_cache_write(os.fspath(path), mode) and arrived["v"]:
                if point == "open-after":
                    die(point)
                return Proxy(f)
            return f

        def my_ntf(mode="w+b", *a, **kw):
            f = real_ntf(mode, *a, **kw)
            if str(kw.get("dir", "")).startswith(cdir) and arrived["v"]:
                if point == "open-after":
                    die(point)
                return Proxy(f)
            return f

        def my_replace(src, dst, *a, **kw):
            if str(dst).startswith(cdir):
                if point == "replace-before":
                    die(point)
                r = real_replace(src, dst, *a, **kw)
                if point == "replace-after":
                    die(point)
                return r
            return real_replace(src, dst, *a, **kw)

        builtins.open, tempfile.NamedTemporaryFile, os.replace = my_open, my_ntf, my_replace
        net.handler = newer
        client.request_profile()
        print("NOCRASH", flush=True)
        return
    if mode == "followup":
        out = {"cache": {k: v.decode("latin_1") for k, v in cache_files().items()}, "steps": []}
        server_dt = args["server_dt"]
        later_dt = args["later_dt"]

        cur = {}

        def consistent(rec):
            asked = asked_date(rec["body"])
            cur["asked"] = asked
            if asked is not None and asked[:14] >= server_dt[:14]:
                cur["server_said"] = "uptodate"
                return Reply(ofxserver.profile_uptodate())
            cur["server_said"] = "profile"
            return Reply(ofxserver.profile_ok(server_dt, URL, URL, finame="NEW", extra=args.get("extra", "")))

        def later(rec):
            cur["asked"] = asked_date(rec["body"])
            cur["server_said"] = "later-profile"
            return Reply(ofxserver.profile_ok(later_dt, URL, URL, finame="LATER"))

        for handler in (consistent, later):
            net.handler = handler
            cur = {}
            try:
                cur["result"] = client.request_profile().read().decode("latin_1")
            except BaseException as e:
                cur["exc"] = repr(e)
            out["steps"].append(cur)
        out["cache_after"] = {k: v.decode("latin_1") for k, v in cache_files().items()}
        print("FOLLOWUP " + json.dumps(out), flush=True)


if __name__ == "__main__":
    main()
