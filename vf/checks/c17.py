"""C17 - parsing, converting and writing are pure, repeatable and safe to run in threads.

Monitors:
 (i)   input immutability - the source bytes, the parsed ET tree (tags, text, tail,
       attrib, child identity/order) and the model instance are snapshotted before
       and after every monitored call;
 (ii)  history independence - every work item's canonical result is computed once in
       a PRISTINE child interpreter; the same items are then executed in a long-lived
       'dirty' process in a different order, after failing inputs and unrelated work,
       and three times in a row: every result must equal the pristine one;
 (iii) threads - the items are executed by 2..16 threads (each on its own inputs) with
       sys.monitoring LINE-event yield injection inside ofxtools code and a 1 us switch
       interval; every result must equal the pristine one; the run reports the line
       events, cross-thread switches and distinct switch edges actually observed and is
       INCONCLUSIVE below a minimum;
 (iv)  shared-state fingerprint before/after (reported; a violation only together with
       a differing result).
"""
import os as _os
import sys as _sys

if _os.environ.get("VF_NO_CET") == "1" and "xml.etree.ElementTree" not in _sys.modules:
    _sys.modules["_elementtree"] = None  # child interpreters run without the C accelerator when their shard does

import io
import json
import warnings
import os
import random
import datetime
import subprocess
import sys
import threading
import time

from vf.core import hostile_history
from vf.core.ctx import fp
from vf.gen import instances, render
from vf.oracles import modelwalk, ref_decl, ref_sgml

PROP = "C17"
LEVEL = "exploration"
TECHNIQUE = "input-snapshot monitors + differential replay against a pristine-interpreter baseline under dirty histories, repetition and multi-threaded stress with sys.monitoring yield injection; observed interleavings counted"
RULE = ("work items = {serialize -> parse -> convert of generated instances of all classes in rotating wire forms; direct from_etree of to_etree "
        "trees (every class as root, incl. groom-overriding MFINFO/STOCKINFO/MAIL with the renamed child present); failing inputs (truncated and "
        "mis-nested documents); type conversions that re-register dispatch handlers}. Each item runs (a) in a pristine child process, (b) in a "
        "dirty process: shuffled, after failing items, 3x in a row, (c) under 2/4/8/16 threads with yield injection, (d) in a fresh interpreter whose 8 (2/8/16) threads are released together before every item, so that the first use of every class is raced; items of kind 'limits' offer one shared pool of texts to string elements with different limits. A case = (item, phase); "
        "non-trivial = result compared with the pristine baseline")
RULE += " Added later: the pristine child runs under ANOTHER host time zone; per nested aggregate the keys of __dict__ and every undeclared value; whole OFX responses / requests incl. serialize() overrides; vendor extensions in converted trees; decimal texts under a thread's foreign arithmetic context; cold threads."
ASSUMPTIONS = ["canonical results: fingerprints of bytes, reference-shaped element tree and modelwalk snapshot; failing inputs compare by exception type",
               "thread schedules are whatever the GIL + injected yields produced; the evidence reports the switches observed (never 'all interleavings')",
               "mutating shared state is not in itself forbidden by the statement: a changed fingerprint alone is reported, not failed"]
LEVEL_TEXT = ("Exploration by stress: purity is checked by snapshots around every call; history- and thread-independence by replaying the same inputs "
              "under hostile histories and schedules against a baseline from a pristine interpreter. Reach comes from workload diversity and injected "
              "yields; the number of cross-thread switches inside ofxtools code is measured and a run that saw too few is inconclusive.")
LEVEL_NOTE = "CPython 3.12 with the GIL: data races below bytecode granularity cannot occur; what is explored is interleaving at line granularity inside ofxtools code."
DESIGN_REF = "DESIGN.md §3 C17"
MIN_COUNTERS = {"quick": {"baseline_items": 800, "dirty_results_compared": 2400, "thread_results_compared": 800, "input_snapshots_compared": 5000,
                          "cross_thread_switches": 400, "switch_edges": 20, "cold-thread_results_compared": 800, "cold_cross_thread_switches": 400},
                "thorough": {"baseline_items": 6000, "dirty_results_compared": 18000, "thread_results_compared": 12000, "input_snapshots_compared": 40000,
                             "cross_thread_switches": 3000, "switch_edges": 40, "cold-thread_results_compared": 5000, "cold_cross_thread_switches": 3000}}

# classes whose documents contain warn-only strings (over-long values are accepted with a warning - also while other threads write)
NAG_CLASSES = {"BANKACCTFROM", "BANKACCTTO", "CCACCTFROM", "CCACCTTO", "INVACCTFROM", "INVACCTTO", "PAYEE", "STMTTRN", "SECINFO", "STMTRS", "CCSTMTRS", "INVSTMTRS",
               "BANKTRANLIST", "SECLIST", "STOCKINFO", "MFINFO", "STMTTRNRS", "INV401K", "BANKMSGSRSV1", "SECLISTMSGSRSV1", "OFX", "ACCTINFO", "BANKACCTINFO"}
FORMS = [(203, False, True), (220, True, True), (102, False, True), (160, True, True), (103, False, False), (151, True, False)]


def shards(tier):
    return 16


def timeout(tier):
    return 900 if tier == "quick" else 5400


# ---------------------------------------------------------------- items
def make_items(seed, shard, nshards, tier):
    classes = list(ref_decl.all_classes())
    per = 1 if tier == "quick" else 8
    items = []
    for ci, name in enumerate(classes):
        if ci % nshards != shard:
            continue
        for p in range(per):
            seedstr = f"C17/{seed}/{name}/{p}"
            items.append({"id": f"rt/{name}/{p}", "kind": "roundtrip", "cls": name, "seedstr": seedstr, "form": (ci + p) % 6})
            items.append({"id": f"fe/{name}/{p}", "kind": "from_etree", "cls": name, "seedstr": seedstr, "profile": "max" if p == 0 else "random"})
            if p == 0 and name in NAG_CLASSES:
                items.append({"id": f"nag/{name}/{p}", "kind": "roundtrip", "cls": name, "seedstr": seedstr + "/nag", "form": (ci + 1) % 6, "nag": True})
                items.append({"id": f"nagfe/{name}/{p}", "kind": "from_etree", "cls": name, "seedstr": seedstr + "/nag", "profile": "random", "nag": True})
                for q in range(3):
                    items.append({"id": f"nagread/{name}/{q}", "kind": "nagread", "cls": name, "seedstr": f"{seedstr}/nagread/{q}", "nag": True})
            if p == 0:
                items.append({"id": f"bad/{name}/{p}", "kind": "failing", "cls": name, "seedstr": seedstr, "form": (ci + 3) % 6, "fault": ci % 3})
                items.append({"id": f"badhdr/{name}/{p}", "kind": "failing", "cls": name, "seedstr": seedstr, "form": (ci + 1) % 6, "fault": 3 + ci % 5})
            if name == "TAX1099INT_V100":
                # the one class with two separate runs of repeated children: members given OUT of run order (writing sorts a copy, not the instance)
                for q in range(6):
                    items.append({"id": f"unordered/{name}/{p}/{q}", "kind": "from_etree", "cls": name, "seedstr": f"{seedstr}/u{q}", "profile": "max", "unordered": True})
    # whole responses / requests with statements of every kind (the root class has conveniences that look into them: writing must not)
    for j in range(2 if tier == "quick" else 10):
        side = "rs" if j % 2 == 0 else "rq"
        force = [f"bankmsgs{side}v1", f"creditcardmsgs{side}v1", f"invstmtmsgs{side}v1"]
        items.append({"id": f"ofx/{shard}/{j}", "kind": "roundtrip" if j % 4 < 2 else "from_etree", "cls": "OFX", "seedstr": f"C17o/{seed}/{shard}/{j}", "form": (shard + j) % 6,
                      "profile": "max" if j < 2 else "random", "force": force})
    for j in range(8 if tier == "quick" else 40):
        items.append({"id": f"ty/{shard}/{j}", "kind": "types", "seedstr": f"C17t/{seed}/{shard}/{j}"})
    # date-times at the two ends of the calendar (normalising them to UTC overflows), each followed by an ordinary conversion under a watchdog
    for j, text in enumerate(("00010101000000.000[+1:CET]", "99991231235959[-5:EST]", "00010101000000[+14]", "99991231235959.999[-12]")):
        items.append({"id": f"edge/{shard}/{j}", "kind": "edgedate", "text": text, "seedstr": "edge"})
    # harness-written version-1 files in each single-byte character set, with characters that differ between them
    for j, cs in enumerate(("1252", "ISO-8859-1", "NONE")):
        items.append({"id": f"cs/{shard}/{cs}", "kind": "charsetdoc", "charset": cs, "seedstr": f"C17c/{seed}/{shard}/{j}"})
    # the SAME texts offered to string elements with different limits (one element per item, so that the order of wide and narrow
    # elements differs between the pristine run, the shuffled runs and the threads)
    strs = string_elements()
    for j in range(24 if tier == "quick" else 120):
        cname, attr = strs[(shard * 131 + j * 17 + seed) % len(strs)]
        items.append({"id": f"lim/{cname}.{attr}", "kind": "limits", "cls": cname, "attr": attr, "seedstr": "shared-pool"})
    seen = set()
    items = [it for it in items if not (it["id"] in seen or seen.add(it["id"]))]
    return items


_STRS = []


def string_elements():
    """(class, attribute) of every bounded, strict string element - sorted, stable."""
    if not _STRS:
        from ofxtools import Types as T
        for name, cls in sorted(ref_decl.all_classes().items()):
            for k, d in ref_decl.decl(cls).items():
                if type(d) is T.String and d.length:
                    _STRS.append((name, k))
    return _STRS


def text_pool():
    """Texts of the lengths at which the models' limits sit (and one more), identical for every item and every process."""
    pool = []
    for n in (1, 2, 3, 4, 5, 6, 7, 8, 9, 10, 11, 12, 13, 16, 17, 20, 21, 22, 23, 32, 33, 36, 37, 40, 41, 64, 65, 80, 81, 255, 256):
        pool.append(("POOLTEXT-" * 30)[:n])
        pool.append(("R&D;<x> " * 40)[:n])
    return pool


def etree_snap(e):
    return (id(e), e.tag, e.text, e.tail, tuple(sorted(e.attrib.items())), tuple(etree_snap(c) for c in e))


_NAGDOCS = {}


class _NullCtx:
    def count(self, *a, **k):
        pass

    def add(self, *a, **k):
        pass


def deep_dict(x):
    """Everything an instance carries, declared or not: per nested aggregate the sorted keys of its __dict__, and the value of
    every key its class does not declare (a snapshot of the declared ones is taken separately).  Nothing here goes through the
    instance's own attribute lookup, __repr__ or properties - looking must not be what changes it."""
    from ofxtools.models.base import Aggregate

    if not isinstance(x, Aggregate):
        return None
    d = ref_decl.decl(type(x))
    own = x.__dict__
    extra = tuple((k, repr(own[k]) if not isinstance(own[k], Aggregate) else ("AGG", id(own[k]))) for k in sorted(own) if k not in d)
    return (type(x).__name__, tuple(sorted(own)), extra, tuple(deep_dict(own[k]) for k in sorted(own) if isinstance(own[k], Aggregate)),
            tuple(deep_dict(m) for m in list.__iter__(x)))


class Imm:
    """Input-immutability monitor (thread-safe counters)."""

    def __init__(self):
        self.lock = threading.Lock()
        self.compared = 0
        self.violations = []

    def check(self, what, before, after, item):
        with self.lock:
            self.compared += 1
            if before != after:
                self.violations.append((what, item["id"], item))


def run_item(item, imm):
    """-> canonical result (JSON-able).  All library calls happen here."""
    from ofxtools.Client import OFXClient
    from ofxtools.models.base import Aggregate
    from ofxtools.Parser import OFXTree

    kind = item["kind"]
    if kind == "types":
        from ofxtools import Types as T
        rng = random.Random(item["seedstr"])
        out = []
        dt, tm, dec = T.DateTime(), T.Time(), T.Decimal(2)
        for _ in range(40):
            y, mo, d, h = rng.randint(1950, 2100), rng.randint(1, 12), rng.randint(1, 28), rng.randint(0, 23)
            off = rng.randint(-12, 14)
            text = f"{y:04d}{mo:02d}{d:02d}{h:02d}3015.250[{off:+d}:XYZ]"
            v = dt.convert(text)
            # ... and the same moment handed over as a Python value with its own offset (nothing here may look at the HOST's zone:
            # the pristine child runs under another one)
            z = datetime.timezone(datetime.timedelta(hours=off, minutes=rng.choice([0, 0, 30, 45]) if -12 < off < 14 else 0))
            pv = (tm.convert(datetime.time(h, 30, 15, 250000, tzinfo=z)).isoformat(), dt.convert(datetime.datetime(y, mo, d, h, 30, 15, tzinfo=z)).isoformat())
            out.append((text, v.isoformat(), dt.unconvert(v), tm.unconvert(tm.convert(text[8:])), str(dec.convert(f"{rng.randint(0, 10**6)},5")), pv))
        # the same decimal texts and values under the arithmetic context the calling thread happens to have: an application that
        # works with few digits and without traps (decimal.ExtendedContext-like) must get what everybody else gets
        import decimal as _d
        texts = [f"{rng.randint(0, 10**6)},5", f"-{rng.randint(1, 999)},{rng.randint(0, 99):02d}", "12345678901234567890,12", "0.10", "+7."]

        def amounts():
            free = T.Decimal()
            res = []
            for t in texts:
                for conv in (dec, free):
                    try:
                        val = conv.convert(t)
                        res.append((t, str(val), conv.unconvert(val)))
                    except Exception as e:
                        res.append((t, "raised", type(e).__name__))
            return res

        plain = amounts()
        with _d.localcontext(_d.Context(prec=5, traps=[])):
            odd = amounts()
        imm.check("result-depends-on-the-threads-arithmetic-context", plain, odd, item)
        out.append(plain)
        return fp(out)
    if kind == "edgedate":
        from ofxtools import Types as T
        try:
            first = ["ok", T.DateTime().convert(item["text"]).isoformat()]
        except Exception as e:
            first = ["raised", type(e).__name__]
        box = []
        th = threading.Thread(target=lambda: box.append(T.DateTime().convert("20200101120000.000[-5:EST]").isoformat()), daemon=True)
        th.start()
        th.join(20)
        if th.is_alive():
            return ["hung"]  # something taken during the failing conversion was never given back
        return [first, box]
    if kind == "charsetdoc":
        cs = item["charset"]
        codec = {"1252": "cp1252", "ISO-8859-1": "latin_1", "NONE": "utf_8"}[cs]
        word = {"cp1252": "caf\u00e9 \u20ac5 \u2019", "latin_1": "caf\u00e9 \u00a1\u00ff", "utf_8": "caf\u00e9 \u6c49 \U0001f600"}[codec]
        hdr = ("OFXHEADER:100\r\nDATA:OFXSGML\r\nVERSION:102\r\nSECURITY:NONE\r\nENCODING:%s\r\nCHARSET:%s\r\nCOMPRESSION:NONE\r\nOLDFILEUID:NONE\r\nNEWFILEUID:NONE\r\n\r\n"
               % ("USASCII" if cs != "NONE" else "UNICODE", cs))
        body = ("<OFX><SIGNONMSGSRSV1><SONRS><STATUS><CODE>0<SEVERITY>INFO<MESSAGE>%s</STATUS><DTSERVER>20200101120000<LANGUAGE>ENG<FI><ORG>%s</FI></SONRS></SIGNONMSGSRSV1></OFX>"
                % (word, word[:4]))
        data = hdr.encode("ascii") + body.encode(codec)
        t = OFXTree()
        t.parse(io.BytesIO(data))
        model = t.convert()
        st = model.signonmsgsrsv1.sonrs.status
        imm.check("charset-document-decoded-wrongly", word, st.__dict__.get("message"), item)
        return fp(modelwalk.snap(model, exact=True))
    cls = ref_decl.all_classes()[item["cls"]]
    rng = random.Random(item["seedstr"])
    if kind == "limits":
        desc = ref_decl.decl(cls)[item["attr"]]
        out = []
        for text in text_pool():
            try:
                got = desc.convert(text)
                out.append(("ok", got))
                if "&" not in text:
                    imm.check("string-over-limit-accepted-or-altered", (len(text) <= desc.length, text), (True, got), dict(item, text=text))
            except Exception as e:
                out.append(("raised", type(e).__name__))
                if "&" not in text:
                    imm.check("string-within-limit-refused", len(text) > desc.length, True, dict(item, text=text))
        return fp(out)

    def nag(r, desc, clsname, attr):
        from ofxtools import Types as T
        if item.get("nag") and isinstance(desc, T.NagString) and desc.length:
            return "N" * (desc.length + 1 + r.randint(0, 9))  # over the limit: accepted with a warning, kept whole
        return NotImplemented

    def make():
        return instances.build(cls, random.Random(item["seedstr"]), item.get("profile", "random"),
                               opts=instances.Opts(maxdepth=5, value_fn=nag, run_order=not item.get("unordered"), force=item.get("force", ())))

    if kind == "nagread":
        # a document containing over-long warn-only strings, rendered by the HARNESS (no library serializer involved): reading it
        # must give the same model whatever other threads are doing (e.g. writing) and whatever happened before
        from vf.checks import c03
        data = _NAGDOCS.get(item["id"])
        if data is None:
            lex = c03.Lex(_NullCtx(), random.Random(item["seedstr"]))
            lex.nag_over = True
            tree, _ = c03.document(lex, make())
            data = (c03.V1HDR + render.random_rendering(tree, random.Random(item["seedstr"] + "/r"))).encode("utf_8")
            _NAGDOCS[item["id"]] = data
        t = OFXTree()
        t.parse(io.BytesIO(data))
        return fp(modelwalk.snap(t.convert(), exact=True))
    inst = make()
    keys0 = deep_dict(inst)
    if kind == "from_etree":
        before_model = modelwalk.snap(inst, exact=True)
        elem = inst.to_etree()
        imm.check("model-mutated-by-to_etree", before_model, modelwalk.snap(inst, exact=True), item)
        imm.check("instance-dict-changed-by-to_etree", keys0, deep_dict(inst), item)
        if sum(map(ord, item["seedstr"])) % 2:
            # a tree as a server's file gives it: with vendor extensions in it (ignored by the conversion - C07 - but they are the
            # caller's, too: the conversion works on a copy and leaves them where they are)
            import xml.etree.ElementTree as _ET
            for host in [elem] + [e for e in elem.iter() if len(e)][1:3]:
                v = _ET.Element("INTU.BID")
                v.text = "00012"
                host.insert(0, v)
                w = _ET.SubElement(host, "ZZV.EXT")
                _ET.SubElement(w, "ZZV.K").text = "v"
        es = etree_snap(elem)
        model = Aggregate.from_etree(elem)
        imm.check("tree-mutated-by-from_etree", es, etree_snap(elem), item)
        # the same tree as a pretty-printer leaves it (whitespace text in aggregates, whitespace tails): whether it converts is not
        # judged here - that it comes back untouched is
        import copy as _copy
        ind = _copy.deepcopy(elem)
        for node in ind.iter():
            if len(node):
                node.text = "\n    "
            node.tail = "\n  "
        es2 = etree_snap(ind)
        try:
            Aggregate.from_etree(ind)
        except Exception:  # noqa
            pass
        imm.check("indented-tree-mutated-by-from_etree", es2, etree_snap(ind), item)
        return fp(modelwalk.snap(model, exact=True))
    ver, pretty, close = FORMS[item["form"]]
    before_model = modelwalk.snap(inst, exact=True)
    data = OFXClient("http://localhost", version=ver, prettyprint=pretty, close_elements=close).serialize(inst)
    imm.check("model-mutated-by-serialize", before_model, modelwalk.snap(inst, exact=True), item)
    imm.check("instance-dict-changed-by-serialize", keys0, deep_dict(inst), item)
    if item["cls"] == "OFX":
        # the per-call overrides of serialize(): another version / formatting for THIS file only - the instance stays what it is
        for over in ({"version": 102, "close_elements": True}, {"version": 220, "prettyprint": True}, {"version": 103, "close_elements": False}):
            try:
                OFXClient("http://localhost", version=ver, prettyprint=pretty, close_elements=close).serialize(inst, **over)
            except Exception:  # noqa: whether this combination is allowed is not judged here
                pass
        imm.check("model-mutated-by-serialize-with-overrides", before_model, modelwalk.snap(inst, exact=True), item)
        imm.check("instance-dict-changed-by-serialize-with-overrides", keys0, deep_dict(inst), item)
    if kind == "roundtrip":
        # writing the SAME instance again in the complementary formatting must give what a fresh equal instance gives
        ver2 = ver if close else (ver if ver < 200 else 102)
        again = OFXClient("http://localhost", version=ver2, prettyprint=not pretty, close_elements=close).serialize(inst)
        fresh = OFXClient("http://localhost", version=ver2, prettyprint=not pretty, close_elements=close).serialize(make())
        imm.check("second-serialization-differs-from-fresh-instance", fresh, again, item)
    if kind == "failing":
        text = data.decode("utf_8")
        if item["fault"] == 0:
            data = text[: max(len(text) * 2 // 3, text.index("<" + item["cls"] + ">") + 3)].encode("utf_8")
        elif item["fault"] == 1:
            data = text.replace("</" + item["cls"] + ">", "</ZZWRONG>").encode("utf_8")
        elif item["fault"] == 2:
            data = (text + "<EXTRA>1</EXTRA>").encode("utf_8")
        elif item["fault"] == 3:   # the failure is in the header stage
            data = text.replace("VERSION", "VERSIONX", 1).encode("utf_8")
        elif item["fault"] == 4:
            data = text.replace("CHARSET:", "CHARSET:KOI8", 1).replace("<?OFX ", "<?OFY ", 1).encode("utf_8")
        elif item["fault"] == 5:
            data = b""
        elif item["fault"] == 6:
            data = text[: text.index("<OFX>")].encode("utf_8") + b"<OFX><MEMO>\xff\xfe\xfa</MEMO></OFX>"
        else:
            data = text[:40].encode("utf_8")
    src = io.BytesIO(data)
    tree = OFXTree()
    try:
        tree.parse(src)
        imm.check("source-bytes-mutated-by-parse", data, src.getvalue(), item)
        root = tree.getroot()
        es = etree_snap(root)
        shape = fp(ref_sgml.from_etree(root))
        model = tree.convert()
        imm.check("tree-mutated-by-convert", es, etree_snap(root), item)
        # converting twice from the same tree must agree, too
        model2 = tree.convert()
        s1, s2 = modelwalk.snap(model, exact=True), modelwalk.snap(model2, exact=True)
        imm.check("second-convert-differs", s1, s2, item)
        return [fp(data), shape, fp(s1)]
    except Exception as e:
        # the caller's stream is the caller's: still open, still holding the same bytes
        imm.check("source-closed-by-failed-parse", False, src.closed, item)
        if not src.closed:
            imm.check("source-bytes-mutated-by-parse", data, src.getvalue(), item)
        return ["raised", type(e).__name__]


# ---------------------------------------------------------------- shared-state fingerprint
def state_fp():
    import ofxtools.header
    import ofxtools.Parser
    import ofxtools.Types as T
    import ofxtools.utils

    parts = []
    for name, cls in ref_decl.all_classes().items():
        for k, d in ref_decl.decl(cls).items():
            parts.append((name, k, type(d).__name__, sorted((a, repr(b)) for a, b in vars(d).items() if a != "name")))
        parts.append((name, "mutex", repr(cls.optionalMutexes), repr(cls.requiredMutexes)))
    for t in (T.Bool, T.String, T.OneOf, T.Integer, T.Decimal, T.DateTime, T.Time):
        for meth in ("convert", "unconvert"):
            sd = t.__dict__.get(meth)
            reg = getattr(getattr(sd, "dispatcher", None), "registry", None)
            if reg is not None:
                parts.append((t.__name__, meth, sorted((k.__name__, getattr(v, "__qualname__", repr(v))) for k, v in reg.items())))
    for mod in (T, ofxtools.utils, ofxtools.header, ofxtools.Parser):
        for k, v in sorted(vars(mod).items()):
            if isinstance(v, (int, str, float, tuple, frozenset, dict, list)) and not k.startswith("__"):
                parts.append((mod.__name__, k, repr(v)[:200]))
    from ofxtools.Parser import TreeBuilder
    parts.append(("TreeBuilder-class-attrs", sorted((k, repr(v)[:80]) for k, v in vars(TreeBuilder).items() if not callable(v) and not k.startswith("__") and k != "regex")))
    return fp(parts)


# ---------------------------------------------------------------- phases
def baseline_main(argv):
    seed, shard, nshards, tier, out = int(argv[0]), int(argv[1]), int(argv[2]), argv[3], argv[4]
    sys.path.insert(0, os.environ["VF_REPO"])
    imm = Imm()
    res = {}
    for it in make_items(seed, shard, nshards, tier):
        try:
            res[it["id"]] = run_item(it, imm)
        except Exception as e:
            res[it["id"]] = ["item-raised", type(e).__name__, str(e)[:100]]
        if res[it["id"]] == ["hung"]:
            break
    with open(out, "w") as f:
        json.dump({"results": res, "imm_compared": imm.compared, "imm_violations": [(w, i) for w, i, _ in imm.violations], "state": state_fp()}, f)


def coldthreads_main(argv):
    """A fresh interpreter in which T threads make the FIRST use of every class at the same moment: all threads run the same items
    in the same order (each on objects of its own), released together before every item, with yield injection inside ofxtools."""
    seed, shard, nshards, tier, out, T, only = int(argv[0]), int(argv[1]), int(argv[2]), argv[3], argv[4], int(argv[5]), argv[6]
    sys.path.insert(0, os.environ["VF_REPO"])
    from vf.monitors.linemon import LineMon

    items = [it for it in make_items(seed, shard, nshards, tier) if it["kind"] in ("from_etree", "roundtrip", "nagread", "limits", "charsetdoc")]
    if only != "-":
        items = [it for it in items if it["id"] == only]
    elif tier == "quick":
        items = [it for it in items if it["kind"] != "roundtrip"][: 24]
    items = [it for it in items if it.get("cls") != "OFX" or only != "-"]  # whole-OFX instances cost minutes under 8 instrumented threads
    imm = Imm()
    results = [dict() for _ in range(T)]
    deadline = time.time() + (150 if tier == "quick" else 240)  # only a guard: the quick tier is bounded by its 24 items
    stop = [False]

    def decide():
        stop[0] = time.time() > deadline  # taken by one thread while all wait: every thread sees the same decision

    barrier = threading.Barrier(T, action=decide)
    sys.setswitchinterval(1e-6)
    lm = LineMon(os.environ.get("VF_REPO", "/repo"), p_yield=0.02, seed=seed)

    def worker(k):
        for it in items:
            try:
                barrier.wait(timeout=120)
            except threading.BrokenBarrierError:
                return
            if stop[0]:
                return
            try:
                results[k][it["id"]] = run_item(it, imm)
            except Exception as e:
                results[k][it["id"]] = ["item-raised", type(e).__name__, str(e)[:100]]

    with lm:
        ths = [threading.Thread(target=worker, args=(k,)) for k in range(T)]
        for t in ths:
            t.start()
        for t in ths:
            t.join(timeout=600)
    with open(out, "w") as f:
        json.dump({"results": results, "items": [it["id"] for it in items], "imm_violations": [(w, i) for w, i, _ in imm.violations], "imm_compared": imm.compared,
                   "events": lm.events, "switches": lm.switches, "edges": len(lm.edges), "alive": sum(t.is_alive() for t in ths)}, f)


def cold_phase(ctx, items, base, T, only="-"):
    out = os.path.join(ctx.scratch, f"cold{T}.json")
    cmd = [sys.executable, "-m", "vf.checks.c17", "coldthreads", str(ctx.seed), str(ctx.shard), str(ctx.nshards), ctx.tier, out, str(T), only]
    try:
        subprocess.run(cmd, timeout=max(90, ctx.time_left() * 0.5), check=True, stdout=subprocess.PIPE, stderr=subprocess.PIPE)
        doc = json.load(open(out))
    except Exception as e:
        ctx.inconclusive_because(f"cold-threads child failed: {e!r} {(getattr(e, 'stderr', None) or b'')[-300:]!r}")
        return
    if doc["alive"]:
        ctx.inconclusive_because("cold-threads child: threads still alive at the watchdog")
    byid = {it["id"]: it for it in items}
    for k, res in enumerate(doc["results"]):
        for iid, got in res.items():
            if base.get(iid, [None])[:1] == ["item-raised"]:
                continue
            compare(ctx, "cold-thread", byid[iid], got, base)
            ctx.distinct(("cold", T, k, iid))
    for w, i in doc["imm_violations"]:
        ctx.violation(f"input-mutated/{w}", f"{i}: {w} (cold threads)", {"item": byid[i], "phase": "cold-thread"})
    ctx.count("input_snapshots_compared", doc["imm_compared"])
    ctx.count("cold_first_uses_raced", len(doc["items"]))
    ctx.count("cold_line_events", doc["events"])
    ctx.count("cold_cross_thread_switches", doc["switches"])


class Hung(Exception):
    """The process under observation is stuck for good: nothing after this point can be trusted to return."""


def compare(ctx, phase, item, got, base):
    want = base.get(item["id"])
    ctx.ev()
    ctx.count(f"{phase}_results_compared")
    if got == ["hung"] or want == ["hung"]:
        ctx.violation("conversion-hangs-after-failing-input", f"{item['id']} ({phase}): an ordinary date-time conversion did not return within 20 s after {item.get('text')!r} had been converted",
                      {"item": item, "phase": phase})
        raise Hung()
    if want is None:
        ctx.inconclusive_because(f"no baseline for {item['id']}")
        return
    if got != want:
        what = "exception-vs-result" if (got[:1] == ["raised"]) != (want[:1] == ["raised"]) else "result-differs"
        ctx.violation(f"{phase}/{item['kind']}/{what}", f"{item['id']}: {phase} result {got} != pristine {want}", {"item": item, "phase": phase})


def run_shard(ctx):
    try:
        _run_shard(ctx)
    except Hung:
        ctx.note("stopped early: the interpreter under observation is stuck (see the violation)")


def _run_shard(ctx):
    from vf.monitors.linemon import LineMon

    ref_sgml.selftest()
    items = make_items(ctx.seed, ctx.shard, ctx.nshards, ctx.tier)
    # ---- (ii-a) pristine baseline in a child interpreter
    out = os.path.join(ctx.scratch, "baseline.json")
    cmd = [sys.executable, "-m", "vf.checks.c17", "baseline", str(ctx.seed), str(ctx.shard), str(ctx.nshards), ctx.tier, out]
    # "depends only on what it is given": the pristine child works in ANOTHER host time zone than this process
    env = dict(os.environ, TZ="XST8" if os.environ.get("TZ") != "XST8" else "EST5EDT,M3.2.0,M11.1.0")
    ctx.add("baseline_host_time_zone", env["TZ"])
    try:
        subprocess.run(cmd, timeout=max(60, ctx.time_left() * 0.4), check=True, stdout=subprocess.PIPE, stderr=subprocess.PIPE, env=env)
        base_doc = json.load(open(out))
    except Exception as e:
        ctx.inconclusive_because(f"baseline child failed: {e!r} {getattr(e, 'stderr', b'')[-300:]!r}")
        return
    base = base_doc["results"]
    ctx.count("baseline_items", len(base))
    for w, i in base_doc["imm_violations"]:
        ctx.violation(f"input-mutated/{w}", f"{i}: {w} (pristine process)", {"item": next(x for x in items if x["id"] == i), "phase": "baseline"})
    ctx.count("input_snapshots_compared", base_doc["imm_compared"])
    crashed = [k for k, v in base.items() if v[:1] == ["item-raised"]]
    if crashed:
        ctx.note(f"{len(crashed)} items raised in the harness itself (generator/serializer), e.g. {crashed[:3]} {base[crashed[0]]}")
    state0 = state_fp()
    imm = Imm()

    # ---- (ii-b) dirty process: shuffled, failing inputs first, unrelated work, 3 times in a row
    rng = random.Random(f"C17d/{ctx.seed}/{ctx.shard}")
    ctx.count("base_classes_used_first", ref_decl.touch_base_classes())
    for rep in range(3):
        order = list(items)
        rng.shuffle(order)
        bad_first = [it for it in order if it["kind"] == "failing"]
        order = bad_first[: len(bad_first) // 2] + [it for it in order if it not in bad_first[: len(bad_first) // 2]]
        for it in order:
            if it["id"] in crashed:
                continue
            if rng.random() < 0.08:
                hostile_history.disturb(rng)  # broken files (also with contradictory headers) in between: not judged, must not matter
                ctx.count("broken_documents_in_between")
            try:
                got = run_item(it, imm)
            except Exception as e:
                got = ["item-raised", type(e).__name__, str(e)[:100]]
            compare(ctx, "dirty", it, got, base)
            ctx.distinct(("dirty", it["id"], rep))
    state1 = state_fp()

    # ---- (iii) threads with yield injection
    old = sys.getswitchinterval()
    sys.setswitchinterval(1e-6)
    results = {}
    good = [it for it in items if it["id"] not in crashed]
    lm = LineMon(os.environ.get("VF_REPO", "/repo"), p_yield=0.02, seed=ctx.seed)
    tcounts = (2, 4, 8, 16) if ctx.tier == "thorough" else (8, 16)
    chunk = len(good) if ctx.tier == "thorough" else max(40, len(good) // 4)
    try:
        with lm:
            for T in tcounts:
                work = rng.sample(good, min(chunk, len(good)))
                work += [x for x in good if x["kind"] == "nagread" and x not in work]
                rng.shuffle(work)
                parts = [work[i::T] for i in range(T)]
                res_lock = threading.Lock()
                barrier = threading.Barrier(T)

                def worker(part, T=T):
                    barrier.wait()
                    for it in part:
                        try:
                            got = run_item(it, imm)
                        except Exception as e:
                            got = ["item-raised", type(e).__name__, str(e)[:100]]
                        with res_lock:
                            results[(T, it["id"])] = (it, got)
                ths = [threading.Thread(target=worker, args=(p,)) for p in parts if p]
                barrier = threading.Barrier(len(ths))
                for t in ths:
                    t.start()
                for t in ths:
                    t.join(timeout=max(30, ctx.time_left() - 10))
                if any(t.is_alive() for t in ths):
                    ctx.inconclusive_because(f"{T}-thread phase did not finish within the watchdog")
                    break
                ctx.add("thread_counts", T)
    finally:
        sys.setswitchinterval(old)
    for (T, iid), (it, got) in results.items():
        compare(ctx, "thread", it, got, base)
        ctx.distinct(("thread", T, iid))
    # ---- (iii-b) the same under threads in a FRESH interpreter: first use of every class raced by all threads
    for T in ((8,) if ctx.tier == "quick" else (2, 8, 16)):
        cold_phase(ctx, items, base, T)
    # ---- (ii-c) once more sequentially AFTER the threads have gone: nothing they did may linger
    for it in [x for x in good if x["kind"] == "nagread"] + rng.sample(good, min(40, len(good))):
        try:
            got = run_item(it, imm)
        except Exception as e:
            got = ["item-raised", type(e).__name__, str(e)[:100]]
        compare(ctx, "after-threads", it, got, base)
    ctx.count("line_events_in_ofxtools", lm.events)
    ctx.count("cross_thread_switches", lm.switches)
    ctx.count("switch_edges", len(lm.edges))
    ctx.count("injected_yields", lm.yields)
    for e in sorted(lm.edges)[:40]:
        ctx.add("switch_edge_examples", f"{e[0]}->{e[1]}")
    state2 = state_fp()
    ctx.count("input_snapshots_compared", imm.compared)
    for w, i, it in imm.violations[:50]:
        ctx.violation(f"input-mutated/{w}", f"{i}: {w}", {"item": it, "phase": "dirty-or-thread"})
    ctx.add("shared_state_fingerprint", f"pristine={base_doc['state']} start={state0} after_dirty={state1} after_threads={state2}")
    if len({base_doc["state"], state0, state1, state2}) > 1:
        ctx.count("shared_state_fingerprint_changed")
    ctx.sample({"items": [it["id"] for it in items[:6]], "phases": ["pristine child", "dirty x3 shuffled", f"threads {tcounts}"],
                "line_events": lm.events, "cross_thread_switches": lm.switches, "edges": len(lm.edges)})


def replay(ctx, case):
    imm = Imm()
    it = case["item"]
    if case.get("phase") == "cold-thread":
        # the pristine answer comes from one sequential run here; the raced answers from a fresh 8-thread interpreter
        base = {it["id"]: run_item(it, imm)}
        cold_phase(ctx, [it], base, 8, only=it["id"])
        return
    out = os.path.join(ctx.scratch, "b.json")
    ctx.ev()
    r1 = run_item(it, imm)
    r2 = run_item(it, imm)
    ctx.note(f"replayed {it['id']} twice in one process: {r1} {r2} (phase of the original failure: {case.get('phase')})")
    if r1 != r2:
        ctx.violation(f"replay/{it['kind']}/result-differs", f"{it['id']}: {r1} vs {r2}", case)
    for w, i, item in imm.violations:
        ctx.violation(f"input-mutated/{w}", f"{i}: {w}", case)


if __name__ == "__main__":
    if sys.argv[1] == "baseline":
        baseline_main(sys.argv[2:])
    elif sys.argv[1] == "coldthreads":
        coldthreads_main(sys.argv[2:])
