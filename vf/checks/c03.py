"""C03 - every data element reaches the model with the value its OFX type assigns.

Documents are rendered by the harness (not by the library's serializer) from a
typed structure with independently chosen lexical forms; the converted model is
walked to (path, python value) pairs and compared with the pairs computed from
the texts by the independent type rules (ref_types).
"""
import datetime
import decimal
import io
import random

from vf.core import hostile_history
from vf.gen import instances, render
from vf.monitors import online
from vf.oracles import modelwalk, ref_decl, spec
from vf.oracles import ref_types as R

PROP = "C03"
LEVEL = "exploration"
TECHNIQUE = "differential runtime monitor: harness-rendered documents (independent lexical choices) -> OFXTree.parse/convert; model walked to (path,value) pairs and compared with values computed from the texts by independent type rules"
RULE = ("documents valid for every exported class (structure from the instance generator) whose leaf TEXTS are chosen independently from the "
        "whole documented lexical space: Y/N; integers with sign / leading zeros; decimals with '.' or ',', sign, leading '+', trailing zeros, no "
        "integer part; strings with each special character escaped (six entities) or raw where legal; EVERY enumeration token (round-robin per "
        "run); date-times in all four notations + offset-without-ms x offsets (fractional, negative, unsigned) x names; times. Rendered as XML, "
        "SGML and mixtures with a v1 or v2 header. A case = (class, seed); non-trivial = document with >= 1 data element")
RULE += " Added later: harness-written version-1 files in CHARSET 1252 / ISO-8859-1 / NONE with the characters on which the sets differ; digits followed by a bare separator ('100.')."
ASSUMPTIONS = ["ref_types.py (self-tested)", "the type, limit, scale and enumeration tokens of every element are taken from vf/oracles/spec_table.json, a copy of the element "
               "declarations frozen from the reviewed tree (tools/mkspec.py) that stands in for the OFX specification; children the table does not know are typed by the live declaration and counted", "document structure validity from the instance generator; rendering by gen/render.py cross-checked by ref_sgml in C02",
               "decimal texts carry no more fractional digits than the declared scale (rounding mode is not specified by the property)"]
LEVEL_TEXT = ("Exploration over all classes: each run converts hundreds of harness-written documents per class family with lexical forms the "
              "library's own serializer never produces, so a compensating error between convert and unconvert cannot hide; every enumeration "
              "token of every class is read at least once per run.")
LEVEL_NOTE = "Trusts ref_types.py and the generator's structure; expected values are computed from the TEXT, not from the library."
DESIGN_REF = "DESIGN.md §3 C03"
MIN_COUNTERS = {"quick": {"documents": 1500, "leaves_compared": 20000, "classes": 380, "datetime_leaves": 1500, "enum_tokens_read": 2500},
                "thorough": {"documents": 120000, "leaves_compared": 1400000, "classes": 380, "datetime_leaves": 20000, "enum_tokens_read": 2500}}

V1HDR = "OFXHEADER:100\r\nDATA:OFXSGML\r\nVERSION:160\r\nSECURITY:NONE\r\nENCODING:UNICODE\r\nCHARSET:NONE\r\nCOMPRESSION:NONE\r\nOLDFILEUID:NONE\r\nNEWFILEUID:NONE\r\n\r\n"
V2HDR = '<?xml version="1.0" encoding="UTF-8" standalone="no"?>\r\n<?OFX OFXHEADER="200" VERSION="220" SECURITY="NONE" OLDFILEUID="NONE" NEWFILEUID="NONE"?>\r\n'
NAMES = [None, "EST", "UTC", "GMT", "X", "A B", "PST"]
D = decimal.Decimal
ESC = {"&": "&amp;", "<": "&lt;", ">": "&gt;", " ": "&nbsp;", "'": "&apos;", '"': "&quot;"}


def shards(tier):
    return 16


def timeout(tier):
    return 900 if tier == "quick" else 5400


class Lex:
    """Lexical-form chooser; keeps round-robin state for enumeration tokens."""

    def __init__(self, ctx, rng):
        self.ctx, self.rng, self.enum_idx = ctx, rng, {}

    nag_over = False  # C17 sets this: warn-only strings are then written over their limit

    def string(self, t):
        rng = self.rng
        if self.nag_over and type(t).__name__ == "NagString" and t.length:
            text = "N" * (t.length + 1 + rng.randint(0, 7))
            return text, text
        cap = t.length if t.length is not None else 40
        if rng.random() < 0.05:
            # blanks spelled as entities survive the trimming of element data: the value is (or begins / ends with) real blanks
            text = rng.choice(["&nbsp;", "&nbsp;&nbsp;", "&nbsp;x&nbsp;", "&nbsp;x", "x&nbsp;"])
            val = R.decode_chardata(text)
            if len(val) <= cap:
                self.ctx.count("strings_of_escaped_blanks")
                return text, val
        n = rng.randint(1, max(1, min(cap, 12)))
        chars = [rng.choice("abcXYZ019 .-_/&<>'\"éü€") for _ in range(n)]
        out = []
        if rng.random() < 0.25:
            # an escaped ampersand directly followed by what looks like the rest of an entity:
            # must be decoded exactly once ("&amp;lt;" is the three characters "&lt;")
            chars.insert(rng.randint(0, len(chars)), rng.choice(["&amp;lt;", "&amp;gt;", "&amp;amp;", "&amp;nbsp;", "&amp;quot;", "&amp;apos;", "&amp;#38;", "&amp;amp;amp;"]))
        for c in chars:
            if len(c) > 1:
                out.append(c)
            elif c in "&<":
                out.append(ESC[c])
            elif c in ESC and rng.random() < 0.6:
                out.append(ESC[c])
            else:
                out.append(c)
        text = "".join(out).strip() or "x"
        val = R.decode_chardata(text)
        if not val.strip() or len(val) > cap:
            return "x", "x"
        return text, val

    def integer(self, t):
        rng = self.rng
        hi = 10**t.length - 1 if t.length is not None else 10**9
        v = rng.choice([0, 1, hi, rng.randint(0, hi)])
        text = rng.choice([str(v), "+" + str(v), "0" + str(v), "000" + str(v)])
        if t.length is None and rng.random() < 0.2:
            v = -rng.randint(1, 10**6)
            text = str(v)
        elif t.length is None and rng.random() < 0.25:
            # no declared limit: integers are exact at any size (2**53 + 1 is the first one a float cannot hold)
            v = rng.choice([2**53 + 1, 2**63 - 1, 2**64 + 1, 10**22 + 1, rng.randint(10**16, 10**30) | 1]) * rng.choice([1, 1, -1])
            text = str(v)
        return text, v

    def dec(self, t):
        rng = self.rng
        scale = None if t.scale is None else -t.scale.as_tuple().exponent
        places = rng.randint(0, scale) if scale is not None else rng.choice([0, 1, 2, 2, 4, 6])
        n = rng.randint(0, 10**rng.randint(1, 10))
        if scale is None and rng.random() < 0.06:
            n = rng.randint(10**30, 10**34)  # > 28 significant digits: the value must not depend on the arithmetic context
        base = D(n).scaleb(-places)
        s = format(base, "f")
        if rng.random() < 0.3 and "." in s and s.startswith("0."):
            s = s[1:]
        if rng.random() < 0.3:
            s = s.replace(".", ",")
        if rng.random() < 0.15 and places == 0:
            s = s + rng.choice([".", ","])  # "100." / "100," - digits with a separator and nothing after it
        sign = rng.choice(["", "", "+", "-"])
        text = sign + s
        val = R.parse_decimal(text)
        if scale is not None:
            val = val.quantize(t.scale)
        return text, val

    def oneof(self, cls, attr, t):
        key = (cls.__name__, attr)
        i = self.enum_idx.get(key, self.rng.randrange(len(t.valid)))
        self.enum_idx[key] = i + 1
        tok = t.valid[i % len(t.valid)]
        self.ctx.count("enum_tokens_read")
        self.ctx.add("enum_tokens", f"{cls.__name__}.{attr}={tok}")
        return tok, tok

    def offset(self):
        rng = self.rng
        off = rng.choice([0, 60 * rng.randint(-12, 14), rng.randint(-12 * 60, 14 * 60), -rng.randint(1, 59), rng.randint(1, 59)])
        off = max(-720, min(840, off))
        sign = "-" if off < 0 else "+"
        h, m = divmod(abs(off), 60)
        if m:
            sp = rng.choice([f"{sign}{h}.{m:02d}", f"{sign}{h:02d}.{m:02d}"] + ([f"{h}.{m:02d}"] if off > 0 else []))
        else:
            sp = rng.choice([f"{sign}{h}", f"{sign}{h:02d}", f"{sign}{h}.00"] + ([f"{h}"] if off >= 0 else []))
        name = rng.choice(NAMES)
        return sp + (":" + name if name is not None else "")

    def datetime(self):
        rng = self.rng
        y, mo = rng.randint(1900, 2199), rng.randint(1, 12)
        d = rng.randint(1, R.days_in_month(y, mo))
        h, mi, s, ms = rng.randint(0, 23), rng.randint(0, 59), rng.randint(0, 59), rng.randint(0, 999)
        base = f"{y:04d}{mo:02d}{d:02d}"
        form = rng.choice(["date", "datetime", "ms", "offset", "offset", "offset-no-ms"])
        if form == "date":
            text = base
        elif form == "datetime":
            text = base + f"{h:02d}{mi:02d}{s:02d}"
        elif form == "ms":
            text = base + f"{h:02d}{mi:02d}{s:02d}.{ms:03d}"
        elif form == "offset":
            text = base + f"{h:02d}{mi:02d}{s:02d}.{ms:03d}[{self.offset()}]"
        else:
            text = base + f"{h:02d}{mi:02d}{s:02d}[{self.offset()}]"
        self.ctx.count("datetime_leaves")
        return text, ("dt_us", R.parse_datetime(text))

    def time(self):
        rng = self.rng
        h, mi, s, ms = rng.randint(0, 23), rng.randint(0, 59), rng.randint(0, 59), rng.randint(0, 999)
        form = rng.choice(["hms", "ms", "offset", "offset-no-ms"])
        text = f"{h:02d}{mi:02d}{s:02d}"
        if form in ("ms", "offset"):
            text += f".{ms:03d}"
        if form.startswith("offset"):
            text += f"[{self.offset()}]"
        return text, ("tm_us", R.parse_time(text))

    def leaf(self, cls, attr, t):
        """-> (text, expected modelwalk leaf)"""
        from ofxtools import Types as T

        if isinstance(t, T.ListElement):
            t = t.converter
        if isinstance(t, T.Bool):
            v = self.rng.random() < 0.5
            return ("Y" if v else "N"), ("bool", v)
        if isinstance(t, T.OneOf):
            text, v = self.oneof(cls, attr, t)
            return text, ("str", v)
        if isinstance(t, T.String):
            text, v = self.string(t)
            return text, ("str", v)
        if isinstance(t, T.Integer):
            text, v = self.integer(t)
            return text, ("int", v)
        if isinstance(t, T.Decimal):
            text, v = self.dec(t)
            return text, ("dec", tuple(v.as_tuple()))
        if isinstance(t, T.Time):
            return self.time()
        if isinstance(t, T.DateTime):
            return self.datetime()
        raise TypeError(t)


def spec_desc(lex, cls, attr, live):
    """The element's type as the frozen specification table gives it (tokens, limits, scale) - the text and the expected value
    are drawn from THAT, so a model whose declaration drifted from the specification disagrees with the document.  Children the
    table does not know (added later) fall back to the live declaration and are counted."""
    from ofxtools import Types as T

    g = spec.gold(cls.__name__, attr)
    if g is None:
        lex.ctx.count("leaves_typed_by_live_declaration_only")
        return live
    lex.ctx.count("leaves_typed_by_spec_table")
    if isinstance(live, T.ListElement):
        return T.ListElement(g)
    return g


def document(lex, inst):
    """Walk a generated instance: -> (reference tree for rendering, expected snapshot)."""
    from ofxtools.models.base import Aggregate

    cls = type(inst)
    d = ref_decl.decl(cls)
    runs = instances.list_runs(cls)
    members = list(list.__iter__(inst))
    kids, items, msnaps = [], [], []
    emitted_runs = set()
    listelem_attr = next((k for k, t in d.items() if ref_decl.kind_of(t) == "listelem"), None)
    member_nodes = []
    for m in members:
        if isinstance(m, Aggregate):
            node, snap = document(lex, m)
            member_nodes.append((type(m).__name__.lower(), node, snap))
        else:
            text, exp = lex.leaf(cls, listelem_attr, spec_desc(lex, cls, listelem_attr, d[listelem_attr]))
            member_nodes.append((listelem_attr, (ref_decl.tag_of(cls, listelem_attr), text), exp))
    for k, t in d.items():
        kind = ref_decl.kind_of(t)
        if kind == "unsupported":
            continue
        if kind in ("listagg", "listelem"):
            r = runs[k]
            if r in emitted_runs:
                continue
            emitted_runs.add(r)
            for (attr, node, snap) in member_nodes:
                if runs.get(attr) == r:
                    kids.append(node)
            continue
        v = inst.__dict__.get(k)
        if v is None:
            continue
        if kind == "sub":
            node, snap = document(lex, v)
            kids.append(node)
            items.append((k, snap))
        else:
            text, exp = lex.leaf(cls, k, spec_desc(lex, cls, k, t))
            kids.append((ref_decl.tag_of(cls, k), text))
            items.append((k, exp))
    # expected member order = order within runs, runs in declared order (generator keeps members in run order)
    ordered = sorted(range(len(member_nodes)), key=lambda i: runs.get(member_nodes[i][0], 0))
    msnaps = tuple(member_nodes[i][2] for i in ordered)
    return (cls.__name__, kids), ("AGG", cls.__name__, tuple(items), msnaps)


def utc_problems(model, path=""):
    """Every datetime/time in the model must be aware with zero offset."""
    from ofxtools.models.base import Aggregate

    out = []
    for k, v in model.__dict__.items():
        if isinstance(v, (datetime.datetime, datetime.time)):
            if v.utcoffset() != datetime.timedelta(0):
                out.append(f"{path}/{type(model).__name__}.{k} = {v!r}")
        elif isinstance(v, Aggregate):
            out.extend(utc_problems(v, f"{path}/{type(model).__name__}"))
    for m in list.__iter__(model):
        if isinstance(m, Aggregate):
            out.extend(utc_problems(m, f"{path}/{type(model).__name__}[]"))
    return out


def key_of(d):
    for needle, kind in (("'str'", "string"), ("'dt_us'", "datetime"), ("'tm_us'", "time"), ("'dec'", "decimal"), ("'int'", "integer"), ("'bool'", "bool"),
                         ("list members", "list-members"), ("class ", "class"), ("children present", "children-missing-or-extra")):
        if needle in d:
            return kind
    return "other"


def one_document(ctx, lex, name, cls, seedstr):
    from ofxtools.Parser import OFXTree

    rng = random.Random(seedstr)
    lex.rng = rng
    ctx.current_case = {"cls": name, "seedstr": seedstr}
    try:
        inst = instances.build(cls, rng, "random", opts=instances.Opts(stratum="plain", maxdepth=6))
    except Exception:
        ctx.count("gen_failed")
        return
    try:
        tree, expected = document(lex, inst)
    except (R.Reject, R.Unspecified) as e:
        ctx.inconclusive_because(f"lexical generator produced a text the reference does not accept: {e}")
        return
    if not isinstance(tree[1], list) or not tree[1]:
        tree = (tree[0], [])
    body = render.random_rendering(tree, rng)
    hdr = rng.choice([V1HDR, V2HDR])
    data = (hdr + body).encode("utf_8")
    nleaves = sum(1 for _ in modelwalk.paths(expected))
    ctx.ev()
    ctx.count("documents")
    ctx.count("leaves_compared", nleaves)
    case = {"cls": name, "seedstr": seedstr, "doc": data.decode("utf_8")[-1500:]}
    if ctx.replay_case is not None:
        hostile_history.replay_history(ctx.replay_case["case"].get("broken_before"))
    else:
        if ctx.rng.random() < 0.06:
            hostile_history.disturb(ctx.rng)  # a broken document right before (not judged)
            ctx.count("after_broken_document")
        case["broken_before"] = list(hostile_history.HISTORY[-40:])
    try:
        # every third document is read by ONE parser object that works through them all (a batch): what it converts is the document it
        # has just parsed, not an earlier one
        global _BATCH
        if ctx.replay_case is None and ctx.evaluations % 3 == 0:
            if _BATCH is None:
                _BATCH = OFXTree()
                _BATCH.parse(io.BytesIO((V2HDR + "<OFX><SIGNONMSGSRSV1><SONRS><STATUS><CODE>0</CODE><SEVERITY>INFO</SEVERITY></STATUS><DTSERVER>20200101</DTSERVER>"
                                          "<LANGUAGE>ENG</LANGUAGE></SONRS></SIGNONMSGSRSV1></OFX>").encode("utf_8")))
                _BATCH.convert()
            t = _BATCH
            case["reused_parser"] = True
            ctx.count("documents_read_by_reused_parser")
        elif ctx.replay_case is not None and ctx.replay_case["case"].get("reused_parser"):
            t = OFXTree()
            t.parse(io.BytesIO((V2HDR + "<OFX><SIGNONMSGSRSV1><SONRS><STATUS><CODE>0</CODE><SEVERITY>INFO</SEVERITY></STATUS><DTSERVER>20200101</DTSERVER>"
                                "<LANGUAGE>ENG</LANGUAGE></SONRS></SIGNONMSGSRSV1></OFX>").encode("utf_8")))
            t.convert()
        else:
            t = OFXTree()
        t.parse(io.BytesIO(data))
        model = t.convert()
    except Exception as e:
        ctx.violation(f"valid-document-rejected/{type(e).__name__}", f"{name}: {e!r} for document ...{body[-300:]!r}", case)
        return
    got = modelwalk.snap(model, exact=True)
    d = modelwalk.diff(expected, got)
    if d:
        ctx.violation(f"value-differs/{key_of(d)}", f"{name}: {d} (expected from the text vs model)", case)
        return
    up = utc_problems(model)
    if up:
        ctx.violation("datetime-not-normalised-to-utc", f"{name}: {up[:2]}", case)
    if nleaves:
        ctx.distinct((name, seedstr))
    return data


def run_shard(ctx):
    try:
        R.selftest()
    except AssertionError as e:
        ctx.inconclusive_because(f"ref_types self-test failed: {e}")
        return
    classes = list(ref_decl.all_classes().items())
    lex = Lex(ctx, ctx.rng)
    online.set_ctx(ctx)
    online.install_init_monitor()
    if ctx.shard == 0:
        for d in spec.differences()[:200]:
            ctx.add("declarations_differing_from_spec_table", str(d)[:200])
    per = 5 if ctx.tier == "quick" else 500
    for ci, (name, cls) in enumerate(classes):
        if ci % ctx.nshards != ctx.shard:
            continue
        if ctx.time_left() < 15:
            ctx.inconclusive_because(f"time budget exhausted before class {name}")
            break
        ctx.count("classes")
        # enough documents to read every token of the class's largest enumeration at least once
        from ofxtools import Types as T
        biggest = max([len(t.valid) for t in ref_decl.decl(cls).values() if isinstance(t, T.OneOf)] + [0])
        n = max(per, min(biggest, 40 if ctx.tier == "quick" else 300))
        for p in range(n):
            data = one_document(ctx, lex, name, cls, f"C03/{ctx.seed}/{name}/{p}")
            if data and p == 1 and ci % 50 == 0:
                ctx.sample({"cls": name, "document_tail": data.decode("utf_8")[-400:]})
    charset_documents(ctx)
    online.flush(ctx)


_BATCH = None


def charset_documents(ctx, only=None):
    """Character data of version-1 files in each declared character set, written by the harness byte for byte: the value in
    the model is the character the DECLARED set assigns to the byte (0x80-0x9F is where the single-byte sets differ)."""
    from ofxtools.Parser import OFXTree

    words = {"1252": ("cp1252", ["caf\u00e9 \u20ac5", "\u2018q\u2019 \u2013 \u2122", "\u0161\u0178\u0152", "na\u00efve \u00ff"]),
             "ISO-8859-1": ("latin_1", ["caf\u00e9 \u00a35", "\u00a1\u00bf\u00ff", "x\u0085y\u0091z\u009f", "na\u00efve"]),
             "NONE": ("utf_8", ["caf\u00e9 \u20ac5", "\u6c49\u5b57 \U0001f600", "\u2018q\u2019", "e\u0301"])}
    for cs, (codec, ws) in words.items():
        for wi, word in enumerate(ws):
            if only is not None and only[:2] != [cs, wi]:
                continue
            # the fields separated by CRLF, by bare CR, or by nothing at all (then the body shares a physical line with the header)
            sep = ("\r\n", "\r", "", "\n")[(wi + len(cs)) % 4] if only is None or len(only) < 3 else only[2]
            hdr = ("OFXHEADER:100\r\nDATA:OFXSGML\r\nVERSION:102\r\nSECURITY:NONE\r\nENCODING:%s\r\nCHARSET:%s\r\nCOMPRESSION:NONE\r\nOLDFILEUID:NONE\r\nNEWFILEUID:NONE\r\n\r\n"
                   % ("USASCII" if cs != "NONE" else "UNICODE", cs)).replace("\r\n\r\n", "\r\n").replace("\r\n", sep) + sep
            body = ("<OFX><SIGNONMSGSRSV1><SONRS><STATUS><CODE>0<SEVERITY>INFO<MESSAGE>%s</STATUS><DTSERVER>20200101120000<LANGUAGE>ENG<FI><ORG>%s</FI></SONRS></SIGNONMSGSRSV1></OFX>"
                    % (word, word[:6].strip()))
            data = hdr.encode("ascii") + body.encode(codec)
            ctx.ev()
            ctx.count("charset_documents")
            case = {"charset_doc": [cs, wi, sep]}
            try:
                t = OFXTree()
                t.parse(io.BytesIO(data))
                m = t.convert()
                got = (m.signonmsgsrsv1.sonrs.status.message, m.signonmsgsrsv1.sonrs.fi.org)
            except Exception as e:
                ctx.violation(f"valid-document-rejected/charset-{cs}/{type(e).__name__}", f"CHARSET:{cs} document with {word!r}: {e!r}", case)
                continue
            if got != (word, word[:6].strip()):
                ctx.violation(f"value-differs/string/charset-{cs}", f"CHARSET:{cs}: the document says {word!r}, the model holds {got[0]!r} (ORG {got[1]!r})", case)


def replay(ctx, case):
    R.selftest()
    classes = ref_decl.all_classes()
    online.set_ctx(ctx)
    online.install_init_monitor()
    if case.get("charset_doc"):
        charset_documents(ctx, only=case["charset_doc"])
        return
    one_document(ctx, Lex(ctx, ctx.rng), case["cls"], classes[case["cls"]], case["seedstr"])
    online.flush(ctx)
