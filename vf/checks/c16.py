"""C16 - shortcuts and flat attribute access agree with the full path; misses are clean.

Monitors (own walk over instance.__dict__, never through __getattr__):
 (a) flat access: a name that exactly one present non-repeated descendant defines
     is readable on the instance and IS the object stored there;
 (b) documented shortcuts equal an explicit walk (identity, every statement once,
     document order);
 (c) undefined names raise AttributeError only; hasattr / getattr-default / copy /
     deepcopy / pickle work and reproduce an equal model.
"""
import copy
import itertools
import pickle
import random

from vf.gen import instances
from vf.oracles import modelwalk, ref_decl

PROP = "C16"
LEVEL = "exploration"
TECHNIQUE = "runtime monitor comparing getattr()/shortcut properties with an explicit __dict__ walk (object identity), plus clean-miss and copy/deepcopy/pickle equality monitors, over presence patterns of all classes; sparse-then-full access order to expose lookup caches"
RULE = ("instances of every exported class over presence patterns of their optional sub-aggregates (all 2^k patterns for k<=6 (quick) / k<=8 (thorough), sampled above) and "
        "list members (min / random / max profiles, sparse instances visited BEFORE full ones in one process), x every attribute name declared "
        "anywhere below the class x undefined names (random identifiers, list-method look-alikes, the dunders the stdlib probes); the 12 message-set "
        "classes and OFX with 0-4 statements / closing statements of each kind interleaved. A case = (class, seed, presence pattern)")
RULE += " Added later: every other shard uses the base classes' class-level API first; the names under which a class declares repeated children (hasattr / getattr-default / plain read); copies of instances re-read from text."
ASSUMPTIONS = ["UNSPECIFIED, accessed but not judged: names declared only by an ABSENT optional sub-aggregate; names declared by two or more present descendants; names that are list attributes",
               "model equality by modelwalk (exact); trnuid/cltcookie stapled onto statements by the .statements shortcut are not model children"]
LEVEL_TEXT = ("Exploration: the proxy is five lines, but which object it returns depends on which optional sub-aggregates are present; every presence "
              "pattern (up to 64 per class) of every class is probed for every name defined below it, and every instance is copied, deep-copied and "
              "pickled (protocols 2-5). Shortcuts are compared by identity with an explicit walk on interleaved message sets.")
LEVEL_NOTE = "Trusts ref_decl and the explicit walk; properties other than the documented shortcuts are not judged."
DESIGN_REF = "DESIGN.md §3 C16"
MIN_COUNTERS = {"quick": {"flat_reads_judged": 10000, "misses_judged": 20000, "copies_judged": 12000, "copies_of_instances_read_from_text": 1000, "shortcuts_judged": 1500, "classes": 380, "statements_shortcut_members": 300},
                "thorough": {"flat_reads_judged": 110000, "misses_judged": 300000, "copies_judged": 180000, "copies_of_instances_read_from_text": 18000, "shortcuts_judged": 20000, "classes": 380, "statements_shortcut_members": 10000}}

UNDEFINED = ["nosuchattr", "zz_undefined", "statementz", "__deepcopy__x", "__copy__", "__deepcopy__", "__getnewargs__", "__getnewargs_ex__", "__setstate__",
             "__reduce_ex__zz", "_private", "__wrapped__", "__fspath__", "__index__", "__len__zz", "__html__", "_ipython_canary_method_should_not_exist_"]
STMT_WRAP = {"STMTTRNRQ": "stmtrq", "STMTENDTRNRQ": "stmtendrq", "CCSTMTTRNRQ": "ccstmtrq", "CCSTMTENDTRNRQ": "ccstmtendrq", "INVSTMTTRNRQ": "invstmtrq",
             "STMTTRNRS": "stmtrs", "STMTENDTRNRS": "stmtendrs", "CCSTMTTRNRS": "ccstmtrs", "CCSTMTENDTRNRS": "ccstmtendrs", "INVSTMTTRNRS": "invstmtrs"}
MSGSETS = ["BANKMSGSRQV1", "BANKMSGSRSV1", "CREDITCARDMSGSRQV1", "CREDITCARDMSGSRSV1", "INVSTMTMSGSRQV1", "INVSTMTMSGSRSV1"]


def shards(tier):
    return 16


def timeout(tier):
    return 900 if tier == "quick" else 5400


def stored(obj, attr):
    return obj.__dict__.get(attr)


def descendants(inst):
    """Present aggregates reachable through non-repeated sub-aggregate links (excluding inst)."""
    out = []
    stack = [inst]
    while stack:
        cur = stack.pop()
        for k, t in ref_decl.decl(type(cur)).items():
            if ref_decl.kind_of(t) == "sub":
                v = stored(cur, k)
                if v is not None:
                    out.append(v)
                    stack.append(v)
    return out


_universe = {}


def universe(cls, depth=0):
    """All child names declared by cls's potential non-repeated descendants."""
    if cls in _universe:
        return _universe[cls]
    names = set()
    _universe[cls] = names
    if depth > 12:
        return names
    for k, t in ref_decl.decl(cls).items():
        if ref_decl.kind_of(t) == "sub":
            sub = t.__type__
            names |= {n for n, tt in ref_decl.decl(sub).items() if ref_decl.kind_of(tt) != "unsupported"}
            names |= universe(sub, depth + 1)
    return names


def check_flat(ctx, inst, case):
    cls = type(inst)
    desc = descendants(inst)
    for name in sorted(universe(cls)):
        definers = [d for d in desc if hasattr(type(d), name)]
        is_list_somewhere = any(ref_decl.kind_of(ref_decl.decl(type(d)).get(name)) in ("listagg", "listelem") for d in desc)
        own = hasattr(cls, name)
        try:
            got = getattr(inst, name)
            exc = None
        except AttributeError as e:
            got, exc = None, e
        except Exception as e:
            ctx.ev()
            ctx.violation(f"flat-access/raises-{type(e).__name__}", f"getattr({cls.__name__}, {name!r}) raised {e!r}", dict(case, name=name))
            continue
        if own or is_list_somewhere or len(definers) != 1:
            ctx.count("flat_reads_unspecified")
            continue
        d = definers[0]
        if name not in ref_decl.decl(type(d)):
            ctx.count("flat_reads_unspecified")  # a property/method of the descendant, not a stored child
            continue
        ctx.ev()
        ctx.count("flat_reads_judged")
        want = stored(d, name)
        if exc is not None:
            ctx.violation("flat-access/defined-name-raises-AttributeError", f"{cls.__name__}.{name} is defined by present descendant {type(d).__name__} but raised {exc}", dict(case, name=name))
        elif got is not want:
            ctx.violation("flat-access/wrong-object", f"{cls.__name__}.{name} returned {got!r}, explicit path via {type(d).__name__} holds {want!r}", dict(case, name=name))


def check_misses(ctx, inst, rng, case):
    cls = type(inst)
    names = list(UNDEFINED) + ["".join(rng.choice("abcdefghijklmnopqrstuvwxyz_") for _ in range(rng.randint(3, 12))) for _ in range(4)]
    desc = descendants(inst)
    for name in names:
        if hasattr(cls, name) or any(hasattr(type(d), name) for d in desc) or name in universe(cls):
            continue
        ctx.ev()
        ctx.count("misses_judged")
        c = dict(case, name=name)
        try:
            getattr(inst, name)
            ctx.violation("miss/returns-a-value", f"getattr({cls.__name__}, {name!r}) returned a value for an undefined name", c)
            continue
        except AttributeError:
            pass
        except Exception as e:
            ctx.violation(f"miss-raises-{type(e).__name__}", f"getattr({cls.__name__}, {name!r}) raised {e!r} instead of AttributeError", c)
            continue
        try:
            sentinel = object()
            if hasattr(inst, name) is not False or getattr(inst, name, sentinel) is not sentinel:
                ctx.violation("miss/hasattr-or-default-wrong", f"hasattr/getattr-default wrong for {cls.__name__}.{name}", c)
        except Exception as e:
            ctx.violation(f"miss-raises-{type(e).__name__}", f"hasattr({cls.__name__}, {name!r}) raised {e!r}", c)


def all_nested(inst):
    """Every aggregate below inst: through sub-aggregate links AND list membership."""
    from ofxtools.models.base import Aggregate

    out, stack = [], [inst]
    while stack:
        cur = stack.pop()
        kids = [stored(cur, k) for k, t in ref_decl.decl(type(cur)).items() if ref_decl.kind_of(t) == "sub"] + list(list.__iter__(cur))
        for v in kids:
            if isinstance(v, Aggregate):
                out.append(v)
                stack.append(v)
    return out


def shared_reads(ctx, inst, case, nthreads=4, rounds=20):
    """One instance shared by several threads that read the same names through it at the same time (a model handed to worker
    threads is read-only use): every thread gets what the single-threaded read gives."""
    import sys
    import threading

    cls = type(inst)
    desc = descendants(inst)
    names = []
    for name in sorted(universe(cls)):
        definers = [d for d in desc if hasattr(type(d), name)]
        if hasattr(cls, name) or len(definers) != 1 or name not in ref_decl.decl(type(definers[0])):
            continue
        try:
            names.append((name, getattr(inst, name)))
        except Exception:  # noqa: judged by check_flat
            continue
    names = names[:12]
    if not names:
        return
    bad = []
    barrier = threading.Barrier(nthreads)

    def worker():
        barrier.wait()
        for _ in range(rounds):
            for name, want in names:
                try:
                    got = getattr(inst, name)
                    if got is not want:
                        bad.append((name, "other-object", repr(got)[:80]))
                    if not hasattr(inst, name):
                        bad.append((name, "hasattr-false", ""))
                except Exception as e:  # noqa
                    bad.append((name, type(e).__name__, str(e)[:80]))

    old = sys.getswitchinterval()
    sys.setswitchinterval(1e-6)
    try:
        ths = [threading.Thread(target=worker) for _ in range(nthreads)]
        for t in ths:
            t.start()
        for t in ths:
            t.join(60)
    finally:
        sys.setswitchinterval(old)
    ctx.ev()
    ctx.count("shared_instance_reads", nthreads * rounds * len(names))
    if bad:
        ctx.violation(f"flat-access/shared-between-threads/{bad[0][1]}", f"{cls.__name__}: {len(bad)} of {nthreads * rounds * len(names) * 2} concurrent reads went wrong, e.g. {bad[0]}", dict(case, threads=True))


def check_list_names(ctx, inst, case):
    """The names under which a class declares its REPEATED children: the members live in the list, nothing is stored under
    these names.  Whatever reading such a name gives, hasattr() and getattr() with a default must answer instead of raising."""
    cls = type(inst)
    for name, t in ref_decl.decl(cls).items():
        if ref_decl.kind_of(t) not in ("listagg", "listelem"):
            continue
        ctx.ev()
        ctx.count("list_names_judged")
        c = dict(case, name=name)
        try:
            hasattr(inst, name)
            getattr(inst, name, None)
        except Exception as e:
            ctx.violation(f"list-name/hasattr-raises-{type(e).__name__}", f"hasattr/getattr-default({cls.__name__}, {name!r}) raised {e!r}", c)
            continue
        try:
            getattr(inst, name)
        except AttributeError:
            pass
        except Exception as e:
            ctx.violation(f"list-name/read-raises-{type(e).__name__}", f"{cls.__name__}().{name} raised {e!r} (neither a value nor AttributeError)", c)


def check_copies(ctx, inst, case):
    _check_copies(ctx, inst, case)
    # the same model as the library's own reader builds it (values converted from text carry the library's own tzinfo etc.)
    try:
        read = type(inst).from_etree(inst.to_etree())
    except Exception:
        ctx.count("reread_failed_not_judged")  # C01's business
        return
    ctx.count("copies_of_instances_read_from_text")
    _check_copies(ctx, read, dict(case, read_from_text=True))


def has_fold(x):
    import datetime
    from ofxtools.models.base import Aggregate

    if isinstance(x, (datetime.datetime, datetime.time)):
        return bool(x.fold)
    if isinstance(x, Aggregate):
        return any(has_fold(v) for v in x.__dict__.values()) or any(has_fold(m) for m in list.__iter__(x))
    return False


def _check_copies(ctx, inst, case):
    s0 = modelwalk.snap(inst, exact=True)
    ops = [("copy", copy.copy), ("deepcopy", copy.deepcopy)] + [(f"pickle{p}", (lambda x, p=p: pickle.loads(pickle.dumps(x, protocol=p)))) for p in (2, 3, 4, 5)]
    folded = has_fold(inst)
    for opname, fn in ops:
        if folded and opname in ("pickle2", "pickle3"):
            ctx.count("unspecified_pickle_protocol_below_4_loses_fold")  # CPython: datetime.fold is only pickled from protocol 4 on
            continue
        ctx.ev()
        ctx.count("copies_judged")
        try:
            dup = fn(inst)
        except Exception as e:
            ctx.violation(f"{opname.rstrip('2345')}/raises-{type(e).__name__}", f"{opname}({type(inst).__name__}) raised {e!r}", dict(case, op=opname))
            continue
        if type(dup) is not type(inst):
            ctx.violation(f"{opname.rstrip('2345')}/wrong-class", f"{opname}({type(inst).__name__}) -> {type(dup).__name__}", dict(case, op=opname))
            continue
        d = modelwalk.diff(s0, modelwalk.snap(dup, exact=True))
        if d:
            ctx.violation(f"{opname.rstrip('2345')}/model-differs", f"{opname}({type(inst).__name__}): {d}", dict(case, op=opname))
        elif opname != "copy" and dup is inst:
            ctx.violation(f"{opname.rstrip('2345')}/same-object", f"{opname} returned the same object", dict(case, op=opname))
    if modelwalk.snap(inst, exact=True) != s0:
        ctx.violation("copy/original-mutated", f"copying mutated {type(inst).__name__}", case)


def explicit_statements(msgs):
    out = []
    for m in list.__iter__(msgs):
        attr = STMT_WRAP.get(type(m).__name__)
        if attr is not None:
            v = stored(m, attr)
            if v is not None:
                out.append(v)
    return out


def same_objects(a, b):
    return len(a) == len(b) and all(x is y for x, y in zip(a, b))


def judge(ctx, what, got_fn, want, case, listy=False):
    ctx.ev()
    ctx.count("shortcuts_judged")
    try:
        got = got_fn()
    except Exception as e:
        ctx.violation(f"shortcut/{what}/raises-{type(e).__name__}", f"{what} raised {e!r}", dict(case, shortcut=what))
        return
    ok = same_objects(list(got), want) if listy else (got is want)
    if not ok:
        desc = ([type(x).__name__ for x in got], [type(x).__name__ for x in want]) if listy else (got, want)
        ctx.violation(f"shortcut/{what}/differs-from-explicit-path", f"{what}: {desc[0]!r}"[:200] + f" vs explicit {desc[1]!r}"[:200], dict(case, shortcut=what))


def check_shortcuts(ctx, inst, case):
    name = type(inst).__name__
    if name in MSGSETS:
        want = explicit_statements(inst)
        ctx.count("statements_shortcut_members", len(want))
        judge(ctx, f"{name}.statements", lambda: inst.statements, want, case, listy=True)
    if name == "OFX":
        rq, rs = stored(inst, "signonmsgsrqv1"), stored(inst, "signonmsgsrsv1")
        want = stored(rq, "sonrq") if rq is not None else stored(rs, "sonrs")
        judge(ctx, "OFX.signon", lambda: inst.signon, want, case)
        allst = []
        for k in ("bankmsgsrqv1", "creditcardmsgsrqv1", "invstmtmsgsrqv1", "bankmsgsrsv1", "creditcardmsgsrsv1", "invstmtmsgsrsv1"):
            m = stored(inst, k)
            if m is not None:
                allst.extend(explicit_statements(m))
        ctx.count("statements_shortcut_members", len(allst))
        judge(ctx, "OFX.statements", lambda: inst.statements, allst, case, listy=True)
        secs = []
        sm = stored(inst, "seclistmsgsrsv1")
        if sm is not None:
            for child in list.__iter__(sm):
                if type(child).__name__ == "SECLIST":
                    secs.extend(list.__iter__(child))
        judge(ctx, "OFX.securities", lambda: inst.securities, secs, case, listy=True)
    if name == "SECLISTMSGSRSV1":
        secs = []
        for child in list.__iter__(inst):
            if type(child).__name__ == "SECLIST":
                secs.extend(list.__iter__(child))
        judge(ctx, "SECLISTMSGSRSV1.securities", lambda: inst.securities, secs, case, listy=True)
    table = {"STMTRS": {"account": "bankacctfrom", "transactions": "banktranlist", "balance": "ledgerbal"},
             "CCSTMTRS": {"account": "ccacctfrom", "transactions": "banktranlist", "balance": "ledgerbal"},
             "INVSTMTRS": {"account": "invacctfrom", "transactions": "invtranlist", "positions": "invposlist", "balances": "invbal"},
             "STMTTRNRS": {"statement": "stmtrs"}, "CCSTMTTRNRS": {"statement": "ccstmtrs"}, "INVSTMTTRNRS": {"statement": "invstmtrs"},
             "STMTENDTRNRS": {"statement": "stmtendrs"}, "CCSTMTENDTRNRS": {"statement": "ccstmtendrs"}, "PROFTRNRS": {"profile": "profrs"}}
    for short, attr in table.get(name, {}).items():
        # judged whether or not the class has it: a wrapper without its shortcut is a missing shortcut, not a case to skip
        judge(ctx, f"{name}.{short}", lambda s=short: getattr(inst, s), stored(inst, attr), case)
    if name == "SONRS" and stored(inst, "fi") is not None:
        fi = stored(inst, "fi")
        judge(ctx, "SONRS.org", lambda: inst.org, stored(fi, "org"), case)
        judge(ctx, "SONRS.fid", lambda: inst.fid, stored(fi, "fid"), case)
    d = ref_decl.decl(type(inst))
    if "currency" in d and "origcurrency" in d and hasattr(type(inst), "curtype"):
        cur = stored(inst, "currency") or stored(inst, "origcurrency")
        if cur is not None:
            judge(ctx, f"{name}.cursym", lambda: inst.cursym, stored(cur, "cursym"), case)
            judge(ctx, f"{name}.currate", lambda: inst.currate, stored(cur, "currate"), case)
            ctx.ev()
            if inst.curtype != type(cur).__name__:
                ctx.violation(f"shortcut/{name}.curtype/differs-from-explicit-path", f"curtype {inst.curtype!r} vs {type(cur).__name__}", dict(case, shortcut="curtype"))


def check_shortcuts_pure(ctx, inst, case):
    """Reading shortcuts (twice) must not change the model."""
    before = modelwalk.snap(inst, exact=True)
    check_shortcuts(ctx, inst, case)
    check_shortcuts(ctx, inst, case)
    ctx.ev()
    d = modelwalk.diff(before, modelwalk.snap(inst, exact=True))
    if d:
        ctx.violation("shortcut/reading-mutates-the-model", f"{type(inst).__name__}: after reading its shortcuts the model differs: {d}", dict(case, shortcut="*"))


def probe(ctx, inst, rng, case):
    check_flat(ctx, inst, case)
    check_misses(ctx, inst, rng, case)
    check_list_names(ctx, inst, case)
    check_shortcuts_pure(ctx, inst, case)
    check_copies(ctx, inst, case)
    ctx.distinct((case["cls"], case["seedstr"], case.get("pattern", "")))


def run_class(ctx, name, cls, seed, thorough):
    d = ref_decl.decl(cls)
    optsubs = [k for k, t in d.items() if ref_decl.kind_of(t) == "sub" and not getattr(t, "required", False)]
    # presence patterns of optional sub-aggregates, SPARSE FIRST
    if len(optsubs) <= (8 if thorough else 6):
        patterns = sorted(itertools.product([0, 1], repeat=len(optsubs)), key=sum)
    else:
        r = random.Random(f"C16p/{seed}/{name}")
        patterns = [tuple(0 for _ in optsubs)] + [tuple(int(r.random() < 0.5) for _ in optsubs) for _ in range(120 if thorough else 10)] + [tuple(1 for _ in optsubs)]
        patterns = sorted(set(patterns), key=sum)
    if not thorough and len(patterns) > 16:
        r = random.Random(f"C16q/{seed}/{name}")
        patterns = [patterns[0]] + sorted(r.sample(patterns[1:-1], 14), key=sum) + [patterns[-1]]
    for pi, pat in enumerate(patterns):
        force = [k for k, on in zip(optsubs, pat) if on]
        excl = [k for k, on in zip(optsubs, pat) if not on]
        seedstr = f"C16/{seed}/{name}/{pi}"
        rng = random.Random(seedstr)
        try:
            inst = instances.build(cls, rng, "random" if pi % 2 else "min", opts=instances.Opts(stratum="plain", maxdepth=6, force=force, exclude=excl))
        except instances.ConstructorRejected:
            ctx.count("pattern_not_constructible")  # e.g. mutually exclusive sub-aggregates
            continue
        probe(ctx, inst, rng, {"cls": name, "seedstr": seedstr, "pattern": "".join(map(str, pat)), "force": force, "exclude": excl})
    for pi, profile in enumerate(["min", "random", "max"] + (["random"] * 60 if thorough else [])):
        seedstr = f"C16/{seed}/{name}/prof{pi}"
        rng = random.Random(seedstr)
        try:
            inst = instances.build(cls, rng, profile, opts=instances.Opts(stratum="plain", maxdepth=6))
        except instances.ConstructorRejected:
            continue
        probe(ctx, inst, rng, {"cls": name, "seedstr": seedstr, "profile": profile})
        if pi == 2:
            # the same with the full range of stored values (strings whose STORED text looks like an entity, odd zones, exponents):
            # a copy that is rebuilt through the constructor would convert them a second time
            try:
                rich = instances.build(cls, random.Random(seedstr + "/rich"), "max", opts=instances.Opts(stratum="mixed", maxdepth=6))
            except Exception:  # noqa
                ctx.count("rich_instance_not_built")
                continue
            ctx.count("rich_instances_copied")
            check_copies(ctx, rich, {"cls": name, "seedstr": seedstr, "profile": profile, "rich": True})


def run_shard(ctx):
    classes = ref_decl.all_classes()
    thorough = ctx.tier == "thorough"
    if ctx.shard % 2 == 1:
        # every other shard: the class-level API of the non-exported base classes (Aggregate, TrnRs, ...) is used before any model
        # class is - what a base class works out for itself must not be what its subclasses then find
        ctx.count("base_classes_used_first", ref_decl.touch_base_classes())
        ctx.case_extra = {"base_first": True}
    for ci, (name, cls) in enumerate(classes.items()):
        if ci % ctx.nshards != ctx.shard:
            continue
        if ctx.time_left() < 15:
            ctx.inconclusive_because(f"time budget exhausted before class {name}")
            break
        ctx.count("classes")
        run_class(ctx, name, cls, ctx.seed, thorough)
        if ci % 70 == 0:
            ctx.sample({"cls": name, "optional_subaggregates": [k for k, t in ref_decl.decl(cls).items() if ref_decl.kind_of(t) == "sub" and not getattr(t, "required", False)],
                        "names_below": sorted(universe(cls))[:12]})
    # message sets and whole OFX trees with interleaved statements (every shard does some)
    rng = ctx.rng
    reps = 12 if not thorough else 80
    for r in range(reps):
        for name in MSGSETS + ["OFX", "SECLISTMSGSRSV1"]:
            seedstr = f"C16m/{ctx.seed}/{ctx.shard}/{name}/{r}"
            rr = random.Random(seedstr)
            force = []
            if name == "OFX":
                side = rr.choice(["rq", "rs"])
                force = [f"bankmsgs{side}v1", f"creditcardmsgs{side}v1", f"invstmtmsgs{side}v1"] + (["seclistmsgsrsv1"] if side == "rs" else [])
            try:
                inst = instances.build(classes[name], rr, "max" if r % 2 == 0 else "random", opts=instances.Opts(stratum="plain", maxdepth=5, force=force))
            except instances.ConstructorRejected:
                continue
            case = {"cls": name, "seedstr": seedstr, "msgset": True, "force": force, "profile": "max" if r % 2 == 0 else "random"}
            check_shortcuts_pure(ctx, inst, case)
            if r < 2:
                # the statements (and the sign-on) inside, each shared by four reader threads
                for sub in [x for x in all_nested(inst) if type(x).__name__ in ("STMTRS", "CCSTMTRS", "INVSTMTRS", "STMTTRNRS", "SONRS", "SONRQ", "STMTTRNRQ")][:3]:
                    shared_reads(ctx, sub, dict(case, shared=type(sub).__name__))
            if r < 2:
                check_copies(ctx, inst, case)
            ctx.distinct((name, seedstr))


def replay(ctx, case):
    classes = ref_decl.all_classes()
    if case.get("base_first"):
        ref_decl.touch_base_classes()
    name = case["cls"]
    rng = random.Random(case["seedstr"])
    if case.get("msgset"):
        inst = instances.build(classes[name], rng, case["profile"], opts=instances.Opts(stratum="plain", maxdepth=5, force=case.get("force", [])))
        check_shortcuts(ctx, inst, case)
        check_copies(ctx, inst, case)
    else:
        run_class(ctx, name, classes[name], int(case["seedstr"].split("/")[1]), True)
