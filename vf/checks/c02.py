"""C02 - all wire renderings of one body parse to the same, faithful element tree.

Monitor: post-condition on TreeBuilder().feed(text); close(): the returned tree
must equal the generator's tree (data trimmed, still escaped), and the
independent reference tokenizer must agree with the generator (otherwise the
harness is wrong: INCONCLUSIVE, never a violation).
"""
import itertools
import random
import xml.etree.ElementTree as ET
from xml.sax import saxutils

from vf.core import hostile_history
from vf.gen import render
from vf.oracles import ref_sgml

PROP = "C02"
LEVEL = "exploration"
TECHNIQUE = "differential runtime monitor on TreeBuilder.feed/close: generator truth + independent reference tokenizer; exhaustive small trees x all rendering choices, sampled large trees"
RULE = ("(a) every ordered tree shape with <=4 (quick) / <=5 (thorough) nodes x leaf/empty-aggregate masks x data "
        "assignments x 3 tag patterns x EVERY combination of per-leaf spellings {end tag, no end tag, CDATA+end tag, "
        "CDATA without} x 3 whitespace fillers; (b) random trees (<=400 nodes) and element trees of generated model "
        "instances, 10 random renderings each (mixed closed/unclosed/CDATA, 7 fillers, padded data). A case = one "
        "rendering text; distinct by text fingerprint; non-trivial = has at least 2 nodes or a data leaf")
ASSUMPTIONS = ["vf/oracles/ref_sgml.py is a correct strict reading of the OFX body syntax (self-tested at start-up)",
               "4 % of the bodies are parsed right after a broken document (vf/core/hostile_history.py; not judged itself); trees up to 400 deep / 3000 wide; model trees also with emptied data elements",
               "UNSPECIFIED and not generated: whitespace between a start tag and <![CDATA[ or between ]]> and the end tag; '<' in data; padded CDATA data; lower-case tags"]
LEVEL_TEXT = ("Exploration with an exhaustive core: every tree with up to 4/5 nodes in every per-node rendering is parsed by the real "
              "TreeBuilder and compared with the generator's tree and with an independent tokenizer; thousands of larger random and "
              "model-derived trees are sampled. The tokenizer is one regex + a few branches, so all adjacent-token pairs are covered by the small-tree enumeration.")
LEVEL_NOTE = "Trusts ref_sgml.py and the generator; layouts the property leaves open (whitespace next to CDATA markers) are not generated."
DESIGN_REF = "DESIGN.md §3 C02"
EXHAUSTIVE = {"quick": "all trees <=4 nodes x all per-leaf rendering choices x 3 fillers",
              "thorough": "all trees <=5 nodes x all per-leaf rendering choices x 3 fillers"}
MIN_COUNTERS = {"quick": {"exhaustive_trees": 1000, "sampled_trees": 300, "after_broken_document": 1500}, "thorough": {"exhaustive_trees": 5000, "sampled_trees": 100000, "after_broken_document": 30000}}


def shards(tier):
    return 16


def timeout(tier):
    return 900 if tier == "quick" else 5400


def classify(text):
    n_cdata = text.count("<![CDATA[")
    if n_cdata:
        parts = text.split("<![CDATA[")
        lines = text.split("\n")
        if any(l.count("<![CDATA[") >= 2 for l in lines):
            return "cdata/two-sections-one-line"
        for p in parts[1:]:
            inner = p.split("]]>")[0]
            if "\n" in inner or "\r" in inner:
                return "cdata/line-break-inside"
        return "cdata/other"
    return "plain"


def lib_parse(text):
    from ofxtools.Parser import TreeBuilder

    b = TreeBuilder()
    b.feed(text)
    return b.close()


def check_one(ctx, tree, text, meta):
    """Monitor one execution of the real tokenizer."""
    ctx.ev()
    ctx.count("monitor_TreeBuilder_feed_close")
    try:
        ref = ref_sgml.parse(text)
    except ref_sgml.RefError as e:
        ctx.inconclusive_because(f"reference rejects a generated rendering: {e}: {text[:120]!r}")
        return
    if ref != tree:
        ctx.inconclusive_because(f"reference tokenizer disagrees with generator on {text[:120]!r}")
        return
    if ctx.replay_case is not None:
        if isinstance(meta, dict):
            hostile_history.replay_history(meta.get("broken_before"))
    else:
        if ctx.rng.random() < 0.04:
            # the same tokenizer was just handed a broken document (not judged); the well-formed one must not notice
            hostile_history.disturb(ctx.rng)
            ctx.count("after_broken_document")
        meta = dict(meta or {}, broken_before=list(hostile_history.HISTORY[-40:]))
    case = {"text": text, "tree": tree_json(tree), "meta": meta}
    try:
        root = lib_parse(text)
    except Exception as e:
        ctx.violation(f"{classify(text)}/raises-{type(e).__name__}", f"TreeBuilder raised {e!r} on well-formed {text[:200]!r}", case)
        return
    if root is None:
        ctx.violation(f"{classify(text)}/returns-None", f"close() returned None for {text[:200]!r}", case)
        return
    got = ref_sgml.from_etree(root)
    if got != tree or ref_sgml.tails(root):
        ctx.violation(f"{classify(text)}", f"tree differs for {text[:200]!r}: got {str(got)[:200]} want {str(tree)[:200]}", case)
        return
    # the same body as a FILE, read by a file parser object that has read other files before (one OFXTree working through a batch)
    if (ctx.replay_case is None and ctx.rng.random() < 0.05) or (ctx.replay_case is not None and meta.get("via") == "reused-file-parser"):
        import io

        global _BATCH
        if _BATCH is None:
            from ofxtools.Parser import OFXTree

            _BATCH = OFXTree()
            _BATCH.parse(io.BytesIO((hostile_history.V2 + "<OFX><A>1</A></OFX>").encode("utf_8")))
        ctx.ev()
        ctx.count("read_as_file_by_reused_parser")
        case = {"text": text, "tree": tree_json(tree), "meta": dict(meta, via="reused-file-parser")}
        try:
            _BATCH.parse(io.BytesIO((hostile_history.V2 + text).encode("utf_8")))
            got = ref_sgml.from_etree(_BATCH.getroot())
        except Exception as e:
            ctx.violation(f"reused-file-parser/raises-{type(e).__name__}", f"an OFXTree that has parsed files before raised {e!r} on well-formed {text[:200]!r}", case)
            return
        if got != tree:
            ctx.violation("reused-file-parser/tree-differs", f"tree differs for {text[:200]!r}: got {str(got)[:200]} want {str(tree)[:200]}", case)


_BATCH = None


def file_layouts(ctx, rng, only=None):
    """One small body with characters outside ASCII behind every header layout the library tolerates (version 2; version 1 with CRLF,
    LF, bare CR or nothing at all between the fields - in the last two the body shares a physical line with the header), read as a
    file: the tree is the document's, in every rendering and behind every layout."""
    import io
    from ofxtools.Parser import OFXTree

    fields = ["OFXHEADER:100", "DATA:OFXSGML", "VERSION:160", "SECURITY:NONE", "ENCODING:UNICODE", "CHARSET:NONE", "COMPRESSION:NONE", "OLDFILEUID:NONE", "NEWFILEUID:NONE"]
    layouts = {"v2": hostile_history.V2, "v1-crlf": "\r\n".join(fields) + "\r\n\r\n", "v1-lf": "\n".join(fields) + "\n\n", "v1-cr": "\r".join(fields) + "\r\r",
               "v1-none": "".join(fields), "v1-cr-glued": "\r".join(fields) + "\r", "v1-blank": " ".join(fields) + " "}
    tree = ("OFX", [("SONRS", [("ORG", "caf\u00e9 \u6c49\u5b57"), ("MEMO", "\u20ac5 \u2013 na\u00efve \U0001f600")]), ("NAME", "\u00fcber")])
    for lname, hdr in layouts.items():
        for r in range(3):
            if only is not None and only != [lname, r]:
                continue
            body = render.random_rendering(tree, random.Random(f"layout/{lname}/{r}"))
            if lname in ("v1-none", "v1-cr-glued", "v1-blank"):
                body = body.lstrip()
            ctx.ev()
            ctx.count("file_layouts_read")
            case = {"text": body, "tree": tree_json(tree), "meta": {"file_layout": [lname, r]}}
            try:
                t = OFXTree()
                t.parse(io.BytesIO((hdr + body).encode("utf_8")))
                got = ref_sgml.from_etree(t.getroot())
            except Exception as e:
                ctx.violation(f"file-layout/{lname}/raises-{type(e).__name__}", f"OFXTree.parse raised {e!r} on a {lname} file with body {body[:120]!r}", case)
                continue
            if got != tree:
                ctx.violation(f"file-layout/{lname}/tree-differs", f"{lname} file: got {str(got)[:200]} want {str(tree)[:200]}", case)


def tree_json(t):
    return [t[0], [tree_json(c) for c in t[1]]] if isinstance(t[1], list) else [t[0], t[1]]


def tree_unjson(j):
    return (j[0], [tree_unjson(c) for c in j[1]]) if isinstance(j[1], list) else (j[0], j[1])


def childless(shape, acc=None, idx=None):
    if acc is None:
        acc, idx = [], [0]
    me = idx[0]
    idx[0] += 1
    if not shape:
        acc.append(me)
    for c in shape:
        childless(c, acc, idx)
    return acc


def exhaustive_trees(maxn):
    T, Dt = render.TAGS, render.DATA
    tagpats = [lambda i: T[i % 4], lambda i: "A", lambda i: T[(3 - i) % 4]]
    for n in range(1, maxn + 1):
        for shape in render.shapes(n):
            cl = childless(shape)
            for mask in itertools.product([0, 1], repeat=len(cl)):
                empties = {cl[i] for i in range(len(cl)) if mask[i]}
                leaves = [i for i in cl if i not in empties]
                if len(leaves) <= 2:
                    assigns = list(itertools.product(range(len(Dt)), repeat=len(leaves)))
                else:
                    assigns = [tuple((r + k) % len(Dt) for k in range(len(leaves))) for r in range(len(Dt))]
                for a in assigns:
                    dmap = dict(zip(leaves, a))
                    for tp in tagpats:
                        yield render.label(shape, tp, lambda i: Dt[dmap[i]], lambda i: i in empties)


def empty_some_leaves(t, rng):
    if not isinstance(t[1], list):
        return (t[0], []) if rng.random() < 0.25 else t
    return (t[0], [empty_some_leaves(c, rng) for c in t[1]])


def model_tree(elem):
    """ET.Element from Aggregate.to_etree() -> reference tree (data escaped as on the wire)."""
    if len(elem) == 0 and elem.text:
        return (elem.tag, saxutils.escape(elem.text).strip() or "x")
    return (elem.tag, [model_tree(c) for c in elem])


def run_shard(ctx):
    try:
        ref_sgml.selftest()
    except AssertionError as e:
        ctx.inconclusive_because(f"reference tokenizer self-test failed: {e}")
        return
    maxn = 4 if ctx.tier == "quick" else 5
    k = 0
    for i, tree in enumerate(exhaustive_trees(maxn)):
        if i % ctx.nshards != ctx.shard:
            continue
        ctx.count("exhaustive_trees")
        for text, meta in render.all_renderings(tree):
            check_one(ctx, tree, text, meta)
            ctx.distinct(text)
            k += 1
            if k % 5000 == 1:
                ctx.sample({"tree": tree_json(tree), "rendering": text, "choices": meta})

    # (b) sampled large trees
    rng = ctx.rng
    n_rand = (2400 if ctx.tier == "quick" else 160000) // ctx.nshards
    for j in range(n_rand):
        tree = render.random_tree(rng, maxnodes=rng.choice([8, 30, 120, 400]), maxdepth=rng.choice([3, 6, 12]))
        ctx.count("sampled_trees")
        for r in range(10):
            text = render.random_rendering(tree, rng)
            check_one(ctx, tree, text, {"sampled": True, "nodes": ref_sgml.count(tree)})
            ctx.distinct(text)
        if j % 60 == 0:
            ctx.sample({"sampled_tree_nodes": ref_sgml.count(tree), "rendering_head": text[:160]})

    # (b') very deep and very wide trees (a recursive reader has a depth it cannot pass; a quadratic one a width)
    for depth in ((150, 400) if ctx.shard % 4 == 0 else (150,)):
        t = ("X" + str(depth), "leaf " + str(depth))
        for i in range(depth):
            t = (("A", "B1", "X.Y")[i % 3], [t] if i % 7 else [("NAME", "n" + str(i)), t, ("MEMO", "m")])
        for r in range(3):
            check_one(ctx, t, render.random_rendering(t, rng), {"deep": depth})
        ctx.count("deep_trees")
    wide = ("OFX", [("STMTTRN", [("FITID", str(i)), ("NAME", "n&amp;" + str(i))]) for i in range(3000)])
    wtext = render.random_rendering(wide, rng)
    check_one(ctx, wide, wtext, {"wide": 3000})
    # the SAME long text (> 64 KiB) a second and a third time: by a new builder each time, in this process
    for again in range(2):
        check_one(ctx, wide, wtext, {"wide": 3000, "again": again + 1})
        ctx.count("long_body_read_again")
    ctx.count("wide_trees")
    file_layouts(ctx, rng)

    # (c) element trees of generated model instances
    from vf.gen import instances
    from vf.oracles import ref_decl

    classes = list(ref_decl.all_classes().items())
    per = 1 if ctx.tier == "quick" else 40
    for ci, (name, cls) in enumerate(classes):
        if ci % ctx.nshards != ctx.shard:
            continue
        for p in range(per):
            seedstr = f"C02/{ctx.seed}/{name}/{p}"
            try:
                inst = instances.build(cls, random.Random(seedstr), "random" if p else "max")
            except Exception:
                ctx.count("model_tree_gen_failed")
                continue
            tree = model_tree(inst.to_etree())
            ctx.count("model_trees")
            for r in range(4):
                text = render.random_rendering(tree, rng)
                check_one(ctx, tree, text, {"model": name, "seedstr": seedstr})
                ctx.distinct(text)
            # the same body with some data elements present but EMPTY (real OFX names under their real parents): an empty node is a node
            hollow = empty_some_leaves(tree, random.Random(seedstr + "/hollow"))
            if hollow != tree:
                ctx.count("model_trees_with_emptied_elements")
                for r in range(2):
                    text = render.random_rendering(hollow, rng)
                    check_one(ctx, hollow, text, {"model": name, "seedstr": seedstr, "hollow": True})
                    ctx.distinct(text)


def replay(ctx, case):
    ref_sgml.selftest()
    meta = case.get("meta") or {}
    if meta.get("file_layout"):
        file_layouts(ctx, ctx.rng, only=meta["file_layout"])
        return
    for _ in range(meta.get("again", 0)):
        try:
            lib_parse(case["text"])  # the earlier readings of the same text
        except Exception:  # noqa
            pass
    check_one(ctx, tree_unjson(case["tree"]), case["text"], meta)
