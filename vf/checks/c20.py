"""C20 - security-identifier check digits: utils.* vs. the published algorithms.

Monitor: every call of cusip_checksum / validate_cusip / sedol_checksum /
isin_checksum / validate_isin / cusip2isin / sedol2isin made by the workload is
compared with vf.oracles.ref_checkdigit (differential oracle).
"""
import itertools

from vf.oracles import agencies
from vf.oracles import ref_checkdigit as ref

PROP = "C20"
LEVEL = "exploration"
RULE = ("bases enumerated (digit sub-spaces, disjoint blocks per shard: distinct by construction) or drawn "
        "from random.Random(seed) (alphanumeric incl. CUSIP * @ #; counted by fingerprint); a case is "
        "non-trivial when the library function was actually called on it and its answer compared with "
        "the independent reference (check digit, validation of the completed id, rejection of every "
        "other check character on the sampled subset, ISIN conversion)")
RULE += " Added later: 'known prefix' comes from a frozen list (vf/oracles/agencies.py), the library's table is probed key by key, identifiers of twelve real securities serve as anchors; padded and look-alike identifiers; malformed calls interleaved."
ASSUMPTIONS = [
    "reference implementation vf/oracles/ref_checkdigit.py is correct (self-tested on published identifiers at start-up)",
    "known numbering-agency prefixes = vf/oracles/agencies.py (frozen copy of the library's table of 68 agencies, the four keys that had lost their second letter restored)",
    "SEDOL 'fails validation' is observed through sedol2isin(), which refuses a wrong check digit (any exception counts)",
]
EXHAUSTIVE = {
    "quick": "all 10^6 all-digit SEDOL bases; one 10^6 block of all-digit CUSIP bases; all 676 two-letter ISIN prefixes",
    "thorough": "all 10^6 all-digit SEDOL bases; all 10^8 all-digit CUSIP bases; all 676 two-letter ISIN prefixes x one 10^4 block",
}
MIN_COUNTERS = {
    "quick": {"sedol_digit_bases": 10**6, "cusip_digit_bases": 10**6, "isin_prefixes_unknown": 500, "padded_ids": 50000, "malformed_calls_interleaved": 1500},
    "thorough": {"sedol_digit_bases": 10**6, "cusip_digit_bases": 10**8, "isin_prefixes_unknown": 500, "padded_ids": 50000, "malformed_calls_interleaved": 1500},
}
CHECKCHARS = "0123456789ABCDEFGHIJKLMNOPQRSTUVWXYZ"
# one extra character that validators built on regexes or int()/strip() tend to swallow
PADDING = ["\n", "\r", " ", "\t", "\x00", "\x0b", "\x0c", "\x1c", "\x85", "\u00a0", "\u2028", "_", "+", "-"]


def shards(tier):
    return 16


def timeout(tier):
    return 900 if tier == "quick" else 5400


def lookalikes(d):
    """Characters that are not the ASCII digit d but that int(), str.isdigit() or unicodedata take for it."""
    if not d.isdigit() or not d.isascii():
        return ""
    n = int(d)
    return "".join(chr(b + n) for b in (0x0660, 0x06F0, 0x0966, 0xFF10, 0x1D7CE, 0x1D7D8)) + "⁰¹²³⁴⁵⁶⁷⁸⁹"[n] + "⓪①②③④⑤⑥⑦⑧⑨"[n]


MALFORMED = [" 8467010", "0846 010", "08467.10", "0846701-", "0\n467010", "é8467010", "08é67010", "0846701", "084670100", "", "08467\x0010", "08_67010"]


def disturb(u, rng):
    """Malformed arguments handed to every function first (each may raise - not judged): nothing they leave behind may change a later answer."""
    for fn in (u.cusip_checksum, u.sedol_checksum, u.isin_checksum, u.validate_cusip, u.validate_isin, u.cusip2isin, u.sedol2isin):
        bad = rng.choice(MALFORMED)
        if fn in (u.isin_checksum, u.validate_isin):
            bad = "US" + bad
        try:
            fn(bad)
        except Exception:  # noqa
            pass


def _cls(base):
    if any(c in "*@#" for c in base):
        return "special-char"
    if base.isdigit():
        return "digits"
    return "alnum"


class Mon:
    """The monitored entry points (real functions) + oracle comparisons."""

    def __init__(self, ctx):
        from ofxtools import utils
        from ofxtools.lib import NUMBERING_AGENCIES

        self.ctx = ctx
        self.u = utils
        # "known prefix" comes from the check's own frozen list, not from the table under test
        self.known = set(agencies.PREFIXES)
        self.table_keys = sorted(NUMBERING_AGENCIES)

    # ---- CUSIP ----
    def cusip(self, base, full):
        ctx, u = self.ctx, self.u
        ctx.ev()
        want = ref.cusip_check(base)
        try:
            got = u.cusip_checksum(base)
        except Exception as e:
            ctx.violation(f"cusip/checksum-raises/{_cls(base)}/{type(e).__name__}",
                          f"cusip_checksum({base!r}) raised {e!r}; reference says {want}", {"kind": "cusip", "base": base})
            return
        if got != want:
            ctx.violation(f"cusip/checksum-wrong/{_cls(base)}", f"cusip_checksum({base!r})={got!r}, reference {want!r}",
                          {"kind": "cusip", "base": base})
            return
        try:
            ok = u.validate_cusip(base + want)
        except Exception as e:
            ok = e
        if ok is not True:
            ctx.violation(f"cusip/valid-rejected/{_cls(base)}", f"validate_cusip({base + want!r}) -> {ok!r}",
                          {"kind": "cusip", "base": base})
        if full:
            ctx.count("cusip_full")
            for c in CHECKCHARS + lookalikes(want):
                if c == want:
                    continue
                ctx.ev()
                try:
                    bad = u.validate_cusip(base + c)
                except Exception:
                    bad = False
                if bad:
                    ctx.violation(f"cusip/corrupt-accepted/{_cls(base)}", f"validate_cusip({base + c!r}) is True; check digit is {want}",
                                  {"kind": "cusip", "base": base})
                    break
            # An ISIN is alphanumeric: a CUSIP containing * @ # has no ISIN at all, so
            # cusip2isin() on it is UNSPECIFIED (it raises ValueError today) - not judged.
            special = _cls(base) == "special-char"
            if special:
                ctx.count("unspecified_skipped_cusip2isin_special")
            for nation in (() if special else (None, "US", "CA")):
                ctx.ev()
                try:
                    isin = u.cusip2isin(base + want, nation)
                    good = (len(isin) == 12 and isin[:2] == (nation or "US") and isin[2:11] == base + want
                            and isin[11] == ref.isin_check(isin[:11]) and u.validate_isin(isin) is True)
                except Exception as e:
                    isin, good = repr(e), False
                if not good:
                    ctx.violation(f"cusip2isin/wrong/{_cls(base)}", f"cusip2isin({base + want!r}, {nation!r}) -> {isin!r}",
                                  {"kind": "cusip", "base": base})
            ctx.ev()
            wrong = CHECKCHARS[(CHECKCHARS.index(want) + 1) % 10]
            try:
                r = u.cusip2isin(base + wrong)
                ctx.violation("cusip2isin/accepts-invalid-cusip", f"cusip2isin({base + wrong!r}) -> {r!r}", {"kind": "cusip", "base": base})
            except ValueError:
                pass
            except Exception as e:
                ctx.count("cusip2isin_invalid_other_exc_" + type(e).__name__)

    # ---- SEDOL ----
    def sedol(self, base, full):
        ctx, u = self.ctx, self.u
        ctx.ev()
        want = ref.sedol_check(base)
        try:
            got = u.sedol_checksum(base)
        except Exception as e:
            ctx.violation(f"sedol/checksum-raises/{_cls(base)}/{type(e).__name__}", f"sedol_checksum({base!r}) raised {e!r}",
                          {"kind": "sedol", "base": base})
            return
        if got != want:
            ctx.violation(f"sedol/checksum-wrong/{_cls(base)}", f"sedol_checksum({base!r})={got!r}, reference {want!r}",
                          {"kind": "sedol", "base": base})
            return
        if full:
            ctx.count("sedol_full")
            for nation in (None, "GB", "IE"):
                ctx.ev()
                try:
                    isin = u.sedol2isin(base + want, nation)
                    good = (len(isin) == 12 and isin[:2] == (nation or "GB") and isin[2:4] == "00" and isin[4:11] == base + want
                            and isin[11] == ref.isin_check(isin[:11]) and u.validate_isin(isin) is True)
                except Exception as e:
                    isin, good = repr(e), False
                if not good:
                    ctx.violation(f"sedol2isin/wrong/{_cls(base)}", f"sedol2isin({base + want!r}, {nation!r}) -> {isin!r}",
                                  {"kind": "sedol", "base": base})
            # a country code no numbering agency has: whatever comes back must not be handed out as an ISIN (it could never validate)
            for fn, ident in ((u.sedol2isin, base + want),):
                for nation in ("ZZ", "XQ", "gb", "G", "GBR"):
                    ctx.ev()
                    ctx.count("conversions_with_unknown_country")
                    try:
                        r = fn(ident, nation)
                    except Exception:
                        continue
                    ctx.violation("sedol2isin/unknown-country-converted", f"sedol2isin({ident!r}, {nation!r}) -> {r!r}: no ISIN begins with {nation!r}", {"kind": "sedol", "base": base})
                    break
            for c in CHECKCHARS + lookalikes(want):
                if c == want:
                    continue
                ctx.ev()
                try:
                    r = u.sedol2isin(base + c)
                except Exception:
                    continue
                ctx.violation(f"sedol/corrupt-accepted/{_cls(base)}", f"sedol2isin({base + c!r}) -> {r!r}; check digit is {want}",
                              {"kind": "sedol", "base": base})
                break

    # ---- ISIN ----
    def isin(self, base, full):
        ctx, u = self.ctx, self.u
        ctx.ev()
        known = base[:2] in self.known
        want = ref.isin_check(base)
        if known:
            try:
                got = u.isin_checksum(base)
            except Exception as e:
                ctx.violation(f"isin/checksum-raises/{type(e).__name__}", f"isin_checksum({base!r}) raised {e!r}", {"kind": "isin", "base": base})
                return
            if got != want:
                ctx.violation("isin/checksum-wrong", f"isin_checksum({base!r})={got!r}, reference {want!r}", {"kind": "isin", "base": base})
                return
            try:
                ok = u.validate_isin(base + want)
            except Exception as e:
                ok = e
            if ok is not True:
                ctx.violation("isin/valid-rejected", f"validate_isin({base + want!r}) -> {ok!r}", {"kind": "isin", "base": base})
        chars = CHECKCHARS if (full or not known) else want + CHECKCHARS[(int(want) + 3) % 10]
        if known and full:
            chars = chars + lookalikes(want)  # other characters that int() / isdigit() take for the same digit
        for c in chars:
            if known and c == want:
                continue
            ctx.ev()
            try:
                bad = u.validate_isin(base + c)
            except Exception:
                bad = False
            if bad:
                k = "isin/corrupt-accepted" if known else "isin/unknown-prefix-accepted"
                ctx.violation(k, f"validate_isin({base + c!r}) is True (known prefix: {known}, check digit {want})",
                              {"kind": "isin", "base": base})
                break

    # ---- lengths ----
    def lengths(self, rng):
        ctx, u = self.ctx, self.u
        for n in range(0, 15):
            for _ in range(40):
                s = "".join(rng.choice(ref.ALNUM) for _ in range(n))
                if n >= 2 and rng.random() < 0.7:
                    s = rng.choice(sorted(self.known)) + s[2:]
                for name, fn, right in (("cusip", u.validate_cusip, 9), ("isin", u.validate_isin, 12)):
                    if n == right:
                        continue
                    ctx.ev()
                    t = s
                    try:
                        r = fn(t)
                    except Exception:
                        r = False
                    ctx.distinct(("len", name, t))
                    if r:
                        ctx.violation(f"{name}/wrong-length-accepted", f"validate_{name}({t!r}) is True (length {n})",
                                      {"kind": "len", "name": name, "text": t})
        # a valid id with one character appended / removed must not validate either
        for _ in range(300):
            b = "".join(rng.choice(ref.ALNUM) for _ in range(8))
            good = b + ref.cusip_check(b)
            pad = rng.choice(PADDING)
            for t in (good + good[-1], good[:-1], "0" + good, good + "0", good + pad, pad + good, good[:4] + pad + good[4:]):
                ctx.ev()
                ctx.count("padded_ids")
                try:
                    r = u.validate_cusip(t)
                except Exception:
                    r = False
                if r:
                    ctx.violation("cusip/wrong-length-accepted", f"validate_cusip({t!r}) is True", {"kind": "len", "name": "cusip", "text": t})
            # SEDOL: "fails validation" is observed through sedol2isin(); a 7-character SEDOL that begins with 0 minus that 0, or with
            # zeros put in front, is a string of the wrong length - not the same SEDOL
            b6 = "0" + "".join(rng.choice(ref.SEDOL_ALPHABET) for _ in range(5))
            good7 = b6 + ref.sedol_check(b6)
            for t in (good7[1:], "0" + good7, "00" + good7, good7 + good7[-1], good7[:-1], good7 + pad, pad + good7, "", "0", "00000"):
                ctx.ev()
                ctx.count("padded_ids")
                try:
                    r = u.sedol2isin(t)
                except Exception:
                    continue
                ctx.violation("sedol/wrong-length-accepted", f"sedol2isin({t!r}) -> {r!r} (valid SEDOL: {good7!r})", {"kind": "len-sedol", "text": t})
            b = rng.choice(sorted(self.known)) + "".join(rng.choice(ref.ALNUM) for _ in range(9))
            good = b + ref.isin_check(b)
            for t in (good + good[-1], good[:-1], good + "0", good[:2] + "0" + good[2:], good + pad, pad + good, good[:2] + pad + good[2:]):
                ctx.ev()
                ctx.count("padded_ids")
                try:
                    r = u.validate_isin(t)
                except Exception:
                    r = False
                if r:
                    ctx.violation("isin/wrong-length-accepted", f"validate_isin({t!r}) is True", {"kind": "len", "name": "isin", "text": t})


def table_and_anchors(ctx, m):
    """The table of numbering agencies itself, and identifiers of real securities (no generator involved)."""
    for k in m.table_keys:
        ctx.ev()
        if not (isinstance(k, str) and len(k) == 2 and k.isascii() and k.isalpha() and k.isupper()):
            ctx.violation("isin/agency-key-is-no-prefix", f"NUMBERING_AGENCIES has the key {k!r}: no ISIN begins with it, the agency's identifiers can never validate",
                          {"kind": "table"})
    missing = sorted(m.known - set(m.table_keys))
    if missing:
        ctx.violation("isin/agency-missing-from-table", f"prefixes {missing} are not in NUMBERING_AGENCIES any more", {"kind": "table"})
    for isin in agencies.REAL_ISINS:
        ctx.ev()
        ctx.count("real_isins")
        if ref.isin_check(isin[:11]) != isin[11]:
            ctx.inconclusive_because(f"anchor {isin} fails the reference check digit")
            continue
        try:
            ok = m.u.validate_isin(isin)
        except Exception as e:
            ok = e
        if ok is not True:
            ctx.violation("isin/valid-rejected/real-security", f"validate_isin({isin!r}) -> {ok!r}", {"kind": "real-isin", "isin": isin})


def run_shard(ctx):
    try:
        ref.selftest()
    except AssertionError:
        ctx.inconclusive_because("reference check-digit implementation failed its self-test")
        return
    m = Mon(ctx)
    table_and_anchors(ctx, m)
    rng = ctx.rng
    sh, n = ctx.shard, ctx.nshards
    thorough = ctx.tier == "thorough"

    # A. SEDOL: all 10^6 all-digit bases, contiguous block per shard
    lo, hi = 10**6 * sh // n, 10**6 * (sh + 1) // n
    for i in range(lo, hi):
        if i % 997 == 0:
            disturb(m.u, rng)
            ctx.count("malformed_calls_interleaved")
        m.sedol("%06d" % i, full=(i % 211 == 0))
    ctx.count("sedol_digit_bases", hi - lo)
    ctx.distinct_enum(hi - lo)
    ctx.sample({"sedol_digit_block": ["%06d" % lo, "%06d" % (hi - 1)]})

    # B. CUSIP all-digit bases
    if thorough:
        lo, hi = 10**8 * sh // n, 10**8 * (sh + 1) // n
    else:
        block = (ctx.seed * 37 + 11) % 100
        lo = block * 10**6 + 10**6 * sh // n
        hi = block * 10**6 + 10**6 * (sh + 1) // n
    step_full = 9973 if thorough else 499
    for i in range(lo, hi):
        if i % 997 == 0:
            disturb(m.u, rng)
            ctx.count("malformed_calls_interleaved")
        m.cusip("%08d" % i, full=(i % step_full == 0))
    ctx.count("cusip_digit_bases", hi - lo)
    ctx.distinct_enum(hi - lo)
    ctx.sample({"cusip_digit_block": ["%08d" % lo, "%08d" % (hi - 1)]})

    # C. ISIN: every two-letter prefix (known and unknown), shard by prefix index
    letters = "ABCDEFGHIJKLMNOPQRSTUVWXYZ"
    prefixes = [a + b for a in letters for b in letters]
    block0 = (ctx.seed * 7919) % 10**5 * 10**4 if thorough else None
    for idx, pre in enumerate(prefixes):
        if idx % n != sh:
            continue
        known = pre in m.known
        ctx.count("isin_prefixes_known" if known else "isin_prefixes_unknown")
        if known and thorough:
            for j in range(10**4):
                m.isin(pre + "%09d" % (block0 + j), full=(j % 503 == 0))
            ctx.distinct_enum(10**4)
        k = (4000 if thorough else 700) if known else (60 if thorough else 12)
        for j in range(k):
            if rng.random() < 0.5:
                nsin = "%09d" % rng.randrange(10**9)
            else:
                nsin = "".join(rng.choice(ref.ALNUM) for _ in range(9))
            base = pre + nsin
            m.isin(base, full=(j % 50 == 0))
            ctx.distinct(("isin", base))
        if idx % 97 == 0:
            ctx.sample({"isin_base": pre + nsin, "known_prefix": known})

    # D. alphanumeric bases (CUSIP incl. * @ #, SEDOL consonants)
    k = 400_000 // n if not thorough else 10_000_000 // n
    for j in range(k):
        r = rng.random()
        if r < 0.34:
            base = "".join(rng.choice(ref.CUSIP_ALPHABET) for _ in range(8))
        elif r < 0.5:
            base = "".join(rng.choice("0123456789*@#") for _ in range(8))
        else:
            base = "".join(rng.choice(ref.ALNUM) for _ in range(8))
        if j % 101 == 0:
            disturb(m.u, rng)
            ctx.count("malformed_calls_interleaved")
        m.cusip(base, full=(j % 40 == 0))
        ctx.distinct(("cusip", base))
        if j % 3 == 0:
            sb = "".join(rng.choice(ref.SEDOL_ALPHABET) for _ in range(6))
            m.sedol(sb, full=(j % 30 == 0))
            ctx.distinct(("sedol", sb))
    ctx.sample({"cusip_alnum_base": base, "sedol_alnum_base": sb})
    ctx.count("alnum_bases", k)

    # E. wrong lengths
    m.lengths(rng)


def replay(ctx, case):
    ref.selftest()
    m = Mon(ctx)
    for _ in range(3):
        disturb(m.u, ctx.rng)
    kind = case["kind"]
    if kind in ("table", "real-isin"):
        table_and_anchors(ctx, m)
    elif kind == "cusip":
        m.cusip(case["base"], full=True)
    elif kind == "sedol":
        m.sedol(case["base"], full=True)
    elif kind == "isin":
        m.isin(case["base"], full=True)
    elif kind == "len-sedol":
        ctx.ev()
        try:
            r = m.u.sedol2isin(case["text"])
            ctx.violation("sedol/wrong-length-accepted", f"sedol2isin({case['text']!r}) -> {r!r}", case)
        except Exception:
            pass
    elif kind == "len":
        from ofxtools import utils
        fn = getattr(utils, "validate_" + case["name"])
        ctx.ev()
        if fn(case["text"]):
            ctx.violation(f"{case['name']}/wrong-length-accepted", f"validate_{case['name']}({case['text']!r}) is True", case)


TECHNIQUE = "differential runtime monitor: every utils check-digit call compared with an independent reference implementation (exhaustive digit sub-spaces + seeded sampling)"
LEVEL_TEXT = ("Exploration with exhaustive cores: all 10^6 digit SEDOL bases and a 10^6 (quick) / all 10^8 (thorough) block of digit "
              "CUSIP bases are enumerated, all 676 two-letter ISIN prefixes are tried, alphanumeric bases (incl. * @ #) are sampled; "
              "every library answer is compared with the published algorithm. A finite input space of pure functions: this is as "
              "strong as observation gets short of enumerating 39^8 CUSIPs.")
LEVEL_NOTE = "Trusts vf/oracles/ref_checkdigit.py (self-tested on published ids) and CPython; lower-case input and cusip2isin on CUSIPs containing * @ # are UNSPECIFIED and not judged."
DESIGN_REF = "DESIGN.md §3 C20"
