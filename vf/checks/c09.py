"""C09 - date-time and time values mean the instant the OFX notation denotes.

Differential monitor on DateTime()/Time().convert and .unconvert against the
integer-arithmetic reference (vf.oracles.ref_types).
"""
import datetime
import re

from vf.oracles import ref_types as R

PROP = "C09"
LEVEL = "exploration"
TECHNIQUE = "differential runtime monitor on DateTime/Time convert+unconvert vs an integer-arithmetic reference; all 1561 whole-minute UTC offsets x every spelling enumerated each run, instants stratified, single-field corruptions for rejection"
RULE = ("read: (instant stratum x notation {date, date-time, +ms, +offset, offset-without-ms}) x ALL 1561 offsets -12:00..+14:00 in every "
        "spelling (+h, -h, unsigned h, zero-padded hh, h.mm, with/without :name over 12 names); reject: every single-field corruption "
        "(length +-1, month 00/13, day 00/32/month overflow, hour 24, minute 60, a letter at each position); write: aware datetimes/times "
        "(datetime.timezone and a custom tzinfo subclass) over all offsets, us resolution incl. rounding carries; write->read. "
        "A case = (operation, text or value); non-trivial = the library was called and its result compared with the reference")
RULE += " Added later: corruptions of the offset FIELD (no hours, junk hours, hours / minutes beyond the clock, non-ASCII digits), zone names containing % directives, the written zone name compared with the zone's, aware values handed to convert()."
ASSUMPTIONS = ["ref_types.py (days-from-civil integer arithmetic) is correct (self-tested)",
               "written values include zones whose offset depends on the date (hand-written PEP 495 tzinfo with fold); the instant a value denotes is value - tzinfo.utcoffset(value), computed by Python's aware arithmetic",
               "offset HOURS outside -12..+14 and minutes outside 00..59 in a text are refused (judged); UNSPECIFIED, not judged: SS=60, +14.01..+14.59 and -12.01..-12.59, offsets with seconds (values), years outside 1900-2200, zone names containing ] [ < &, the '[-:EST]' broker form"]
LEVEL_TEXT = ("Exploration, exhaustive over the offset dimension: every whole-minute UTC offset in every spelling is read and written every run; "
              "instants are stratified over month/year ends, leap days, midnight and sub-millisecond rounding carries; every single-field "
              "corruption of valid texts must be refused. The converters are small pure functions, so offset x notation x stratified instants reaches their branches.")
LEVEL_NOTE = "Trusts ref_types.py; datetime/tzinfo from CPython."
DESIGN_REF = "DESIGN.md §3 C09"
EXHAUSTIVE = {"quick": "all 1561 whole-minute offsets x all spellings (read) and x both tzinfo kinds (write)",
              "thorough": "all 1561 whole-minute offsets x all spellings (read) and x both tzinfo kinds (write), x 20 instant strata"}
MIN_COUNTERS = {"quick": {"read_ok": 20000, "reject_checked": 3000, "write_checked": 6000, "offsets_read": 1561},
                "thorough": {"read_ok": 400000, "reject_checked": 60000, "write_checked": 100000, "offsets_read": 1561}}

NAMES = [None, "EST", "UTC", "GMT", "X", "A B", "-03", "+0530", "30", "Zoné", "EST5EDT", "a.b", "", "%H%M", "100%", "%%", "GMT%z", "UTC-05:00", "%d %B"]  # "" = a zone that has no name to give
_EPOCH = datetime.datetime(1970, 1, 1, tzinfo=datetime.timezone.utc)
_US = datetime.timedelta(microseconds=1)


def shards(tier):
    return 16


def timeout(tier):
    return 900 if tier == "quick" else 5400


from vf.gen.values import DST_ZONES, DstTz  # noqa: E402  (zones whose offset depends on the date, shared with the model generators)


class BareTz(datetime.tzinfo):
    """The least a tzinfo can be: an offset.  tzname() is not implemented (the base class raises NotImplementedError)."""

    def __init__(self, minutes):
        self._off = datetime.timedelta(minutes=minutes)

    def utcoffset(self, dt):
        return self._off

    def dst(self, dt):
        return None

    def __repr__(self):
        return f"BareTz({self._off!r})"


class FixedTz(datetime.tzinfo):
    """A custom tzinfo subclass (not datetime.timezone)."""

    def __init__(self, minutes, name):
        self._off = datetime.timedelta(minutes=minutes)
        self._name = name

    def utcoffset(self, dt):
        return self._off

    def tzname(self, dt):
        return self._name

    def dst(self, dt):
        return datetime.timedelta(0)


def offset_spellings(off):
    """All documented spellings of a whole-minute offset."""
    sign = "-" if off < 0 else "+"
    h, m = divmod(abs(off), 60)
    out = []
    if m == 0:
        out += [f"{sign}{h}", f"{sign}{h:02d}", f"{sign}{h}.00"]
        if off >= 0:
            out += [f"{h}", f"{h:02d}"]
    else:
        out += [f"{sign}{h}.{m:02d}", f"{sign}{h:02d}.{m:02d}"]
        if off > 0:
            out += [f"{h}.{m:02d}"]
    return out


def instants(rng, k):
    """Stratified local wall-clock fields (y, mo, d, h, mi, s, ms)."""
    fixed = [(1900, 1, 1, 0, 0, 0, 0), (2199, 12, 31, 23, 59, 59, 999), (2000, 2, 29, 12, 0, 0, 0), (2100, 2, 28, 23, 59, 59, 999),
             (1999, 12, 31, 23, 59, 59, 999), (2024, 2, 29, 0, 0, 0, 1), (1970, 1, 1, 0, 0, 0, 0), (2038, 1, 19, 3, 14, 7, 0),
             (1969, 12, 31, 23, 59, 59, 500), (2001, 9, 11, 8, 46, 0, 123)]
    out = list(fixed[:k])
    while len(out) < k:
        y = rng.randint(1900, 2199)
        mo = rng.randint(1, 12)
        d = rng.randint(1, R.days_in_month(y, mo))
        out.append((y, mo, d, rng.randint(0, 23), rng.randint(0, 59), rng.randint(0, 59), rng.randint(0, 999)))
    return out


def dt_us(v):
    return (v - _EPOCH) // _US


def key_of_read(text, notation):
    if "[-0." in text:
        return "read/negative-sub-hour-offset-sign-lost"
    return f"read/wrong-instant/{notation}"


def check_read_dt(ctx, DT, text, notation, case):
    ctx.ev()
    try:
        want = R.parse_datetime(text)
    except R.Unspecified:
        ctx.count("unspecified_skipped")
        return
    except R.Reject as e:
        ctx.inconclusive_because(f"generator produced a text the reference rejects: {text!r}: {e}")
        return
    try:
        got = DT.convert(text)
    except Exception as e:
        ctx.violation(f"read/valid-rejected/{notation}", f"DateTime().convert({text!r}) raised {e!r}", case)
        return
    ctx.count("read_ok")
    if not isinstance(got, datetime.datetime) or got.utcoffset() is None:
        ctx.violation("read/not-aware", f"convert({text!r}) -> {got!r}", case)
    elif got.utcoffset() != datetime.timedelta(0):
        ctx.violation("read/not-utc", f"convert({text!r}) -> {got!r} (offset {got.utcoffset()})", case)
    elif dt_us(got) != want:
        ctx.violation(key_of_read(text, notation), f"convert({text!r}) -> {got.isoformat()} = {dt_us(got)} us; notation denotes {want} us (diff {(dt_us(got) - want) / 6e7} min)", case)


def check_read_time(ctx, TM, text, case):
    ctx.ev()
    try:
        want = R.parse_time(text)
    except R.Unspecified:
        ctx.count("unspecified_skipped")
        return
    try:
        got = TM.convert(text)
    except Exception as e:
        ctx.violation("time/read/valid-rejected", f"Time().convert({text!r}) raised {e!r}", case)
        return
    ctx.count("read_ok")
    if not isinstance(got, datetime.time) or got.utcoffset() != datetime.timedelta(0):
        ctx.violation("time/read/not-utc", f"Time().convert({text!r}) -> {got!r}", case)
        return
    us = ((got.hour * 60 + got.minute) * 60 + got.second) * 10**6 + got.microsecond
    if us != want:
        k = "time/read/negative-sub-hour-offset-sign-lost" if "[-0." in text else "time/read/wrong-instant"
        ctx.violation(k, f"Time().convert({text!r}) -> {got!r}; notation denotes {want} us after UTC midnight", case)


def check_reject(ctx, conv, text, what, case):
    ctx.ev()
    ctx.count("reject_checked")
    try:
        got = conv.convert(text)
    except Exception:
        return
    ctx.violation(f"reject/accepted/{what}", f"{type(conv).__name__}().convert({text!r}) -> {got!r} (must be refused: {what})", case)


def zname(value):
    try:
        return value.tzname()
    except NotImplementedError:  # a tzinfo that gives an offset and nothing else
        return None


def zone_name_verbatim(ctx, text, name, case, prefix=""):
    """[offset:name] - the name is the zone's own name, character for character (it is data, not a template)."""
    import re
    m = re.search(r"\[[^:\]]*(?::(.*))?\]\Z", text, re.S)
    written = m.group(1) if m else None
    ctx.count("zone_names_compared")
    if (written or "") != (name or ""):
        ctx.violation(prefix + "write/zone-name-not-the-zone's", f"value with zone name {name!r} written as {text!r} (name part {written!r})", case)
        return False
    return True


def check_write_dt(ctx, DT, value, case):
    ctx.ev()
    ctx.count("write_checked")
    want = dt_us(value)
    try:
        text = DT.unconvert(value)
    except Exception as e:
        ctx.violation("write/aware-refused", f"DateTime().unconvert({value!r}) raised {e!r}", case)
        return
    if not isinstance(text, str) or not R.written_datetime_ok(text):
        ctx.violation("write/bad-grammar", f"unconvert({value!r}) -> {text!r} is not YYYYMMDDHHMMSS.XXX[+h[.mm][:name]]", case)
        return
    name = zname(value)
    if name is not None and any(c in name for c in "[]<&"):
        ctx.count("unspecified_skipped")
        return
    if not zone_name_verbatim(ctx, text, name, case):
        return
    ctx.ev()
    try:
        stored = DT.convert(value)  # the value as the models take it
        if stored.utcoffset() is None or dt_us(stored) != want:
            ctx.violation("value-converted-to-another-instant", f"DateTime().convert({value!r}) -> {stored!r}", case)
            return
    except Exception as e:
        ctx.violation("aware-value-refused", f"DateTime().convert({value!r}) raised {e!r}", case)
        return
    try:
        back = R.parse_datetime(text)
    except (R.Reject, R.Unspecified) as e:
        ctx.violation("write/unreadable", f"unconvert({value!r}) -> {text!r}: reference cannot read it: {e}", case)
        return
    if abs(back - want) > 500:
        k = "write/negative-sub-hour-offset-sign" if -60 < value.utcoffset() // datetime.timedelta(minutes=1) < 0 else "write/wrong-instant"
        ctx.violation(k, f"unconvert({value!r}) -> {text!r} denotes {back} us, value is {want} us (diff {back - want} us)", case)
        return
    # write -> read through the library
    ctx.ev()
    try:
        again = DT.convert(text)
    except Exception as e:
        ctx.violation("write-read/unreadable-by-library", f"convert(unconvert({value!r}) = {text!r}) raised {e!r}", case)
        return
    if abs(dt_us(again) - want) > 500:
        ctx.violation("write-read/wrong-instant", f"convert(unconvert({value!r}) = {text!r}) -> {again.isoformat()} differs by {dt_us(again) - want} us", case)


def check_write_time(ctx, TM, value, case):
    ctx.ev()
    ctx.count("write_checked")
    off_us = value.utcoffset() // _US
    want = (((value.hour * 60 + value.minute) * 60 + value.second) * 10**6 + value.microsecond - off_us) % (86400 * 10**6)
    try:
        text = TM.unconvert(value)
    except Exception as e:
        ctx.violation("time/write/aware-refused", f"Time().unconvert({value!r}) raised {e!r}", case)
        return
    if not isinstance(text, str) or not R.written_datetime_ok(text, with_date=False):
        ctx.violation("time/write/bad-grammar", f"Time().unconvert({value!r}) -> {text!r}", case)
        return
    if not zone_name_verbatim(ctx, text, zname(value), case, "time/"):
        return
    # the value as the models take it: handed to convert() as a Python time with its own offset, it must come out as the same
    # time of day in UTC
    ctx.ev()
    try:
        stored = TM.convert(value)
        us = ((stored.hour * 60 + stored.minute) * 60 + stored.second) * 10**6 + stored.microsecond - (stored.utcoffset() // _US if stored.utcoffset() is not None else 0)
        d0 = (us - want) % (86400 * 10**6)
        if stored.utcoffset() is None or min(d0, 86400 * 10**6 - d0) > 0:
            ctx.violation("time/value-converted-to-another-instant", f"Time().convert({value!r}) -> {stored!r}", case)
            return
    except Exception as e:
        ctx.violation("time/aware-value-refused", f"Time().convert({value!r}) raised {e!r}", case)
        return
    back = R.parse_time(text)
    d = (back - want) % (86400 * 10**6)
    if min(d, 86400 * 10**6 - d) > 500:
        ctx.violation("time/write/wrong-instant", f"Time().unconvert({value!r}) -> {text!r} denotes {back}, value is {want}", case)
        return
    ctx.ev()
    try:
        again = TM.convert(text)
        us = ((again.hour * 60 + again.minute) * 60 + again.second) * 10**6 + again.microsecond
        d = (us - want) % (86400 * 10**6)
        if min(d, 86400 * 10**6 - d) > 500:
            ctx.violation("time/write-read/wrong-instant", f"Time: {value!r} -> {text!r} -> {again!r}", case)
    except Exception as e:
        ctx.violation("time/write-read/unreadable-by-library", f"Time().convert({text!r}) raised {e!r}", case)


def corruptions(text, kind):
    """Single-field corruptions of a valid text -> (bad_text, what)."""
    n = 8 if kind == "dt" else 0
    out = []
    if kind == "dt":
        out += [(text[:4] + "00" + text[6:], "month-00"), (text[:4] + "13" + text[6:], "month-13"),
                (text[:6] + "00" + text[8:], "day-00"), (text[:6] + "32" + text[8:], "day-32")]
        y, m = int(text[:4]), int(text[4:6])
        dim = R.days_in_month(y, m)
        if dim < 31:
            out.append((text[:6] + f"{dim + 1:02d}" + text[8:], "day-month-overflow"))
        if len(text) == 8:
            out += [(text[:-1], "length-7"), (text + "1", "length-9"), (text + "12", "length-10"), (text + "1200", "length-12")]
    if len(text) >= n + 6:
        out += [(text[:n] + "24" + text[n + 2:], "hour-24"), (text[:n + 2] + "60" + text[n + 4:], "minute-60"),
                (text[:n + 4] + "61" + text[n + 6:], "second-61")]
        if len(text) == n + 6:
            out += [(text[:-1], "length-short"), (text + "0", "length-long")]
        if len(text) >= n + 10 and text[n + 6] == ".":
            out += [(text[:n + 7] + text[n + 8:], "ms-two-digits"), (text[:n + 10] + "5" + text[n + 10:], "ms-four-digits")]
    for i in range(len(text)):
        if text[i].isdigit() and "[" not in text[:i]:
            out.append((text[:i] + "a" + text[i + 1:], "letter"))
    # one character more than the notation has: a line break or blank at either end (a '$' anchor lets a final line break through)
    out += [(text + "\n", "length-trailing-newline"), (text + "\r\n", "length-trailing-crlf"), ("\n" + text, "length-leading-newline"),
            (text + " ", "length-trailing-blank"), (text + "\x00", "length-trailing-nul")]
    # the offset field itself: hours that are no signed number (a fallback that infers the offset from a zone NAME must not take junk
    # for "no hours given"), hours and minutes beyond the clock (-12 .. +14 hours, 0 .. 59 minutes)
    mo = re.search(r"\[([+-]?[0-9]+)((?:\.[0-9]{2})?)((?::[^\]]*)?)\]\Z", text)
    if mo:
        head = text[: mo.start()]
        for junk in ("5-3", "+-", "--5", "5+", "1-2", "-+5", "5 ", "+ 5"):
            out.append((f"{head}[{junk}{mo.group(2)}{mo.group(3)}]", "offset-hours-junk"))
            out.append((f"{head}[{junk}:EST]", "offset-hours-junk"))
        # no hours at all (the bare SIGN of the broker form '[-:CST]' is the only thing that may stand for them)
        out += [(f"{head}[]", "offset-hours-missing"), (f"{head}[:EST]", "offset-hours-missing"), (f"{head}[.30]", "offset-hours-missing"), (f"{head}[.30:EST]", "offset-hours-missing")]
        for far in ("+15", "-13", "99", "+24", "-99"):
            out.append((f"{head}[{far}{mo.group(2)}{mo.group(3)}]", "offset-hours-out-of-range"))
        for mins in (".60", ".99", ".75"):
            out.append((f"{head}[{mo.group(1)}{mins}{mo.group(3)}]", "offset-minutes-out-of-range"))
        hs = mo.start(1) + (1 if text[mo.start(1)] in "+-" else 0)
        for base in (0x0660, 0xFF10):
            out.append((text[:hs] + chr(base + int(text[hs])) + text[hs + 1:], "non-ascii-digit"))
    # a digit that is not an ASCII digit (what \d and int() take for one), in every numeric field incl. the offset minutes
    m = re.search(r"\[[+-]?[0-9]+\.([0-9]{2})", text)
    spots = [i for i in range(len(text)) if text[i].isdigit() and "[" not in text[:i]][::3]
    if m:
        spots += [m.start(1), m.start(1) + 1]
    for i in spots:
        for base in (0x0660, 0xFF10):
            out.append((text[:i] + chr(base + int(text[i])) + text[i + 1:], "non-ascii-digit"))
    return out


def render_dt(fields, notation, offspell=None, name=None):
    y, mo, d, h, mi, s, ms = fields
    if notation == "date":
        return f"{y:04d}{mo:02d}{d:02d}"
    base = f"{y:04d}{mo:02d}{d:02d}{h:02d}{mi:02d}{s:02d}"
    if notation == "datetime":
        return base
    if notation == "ms":
        return base + f".{ms:03d}"
    tz = offspell + (":" + name if name is not None else "")
    if notation == "offset":
        return base + f".{ms:03d}[{tz}]"
    if notation == "offset-no-ms":
        return base + f"[{tz}]"
    raise ValueError(notation)


def run_shard(ctx):
    try:
        R.selftest()
    except AssertionError as e:
        ctx.inconclusive_because(f"ref_types self-test failed: {e}")
        return
    from ofxtools.Types import DateTime, Time

    DT, TM = DateTime(), Time()
    rng = ctx.rng
    thorough = ctx.tier == "thorough"
    k_inst = 60 if thorough else 2
    all_offsets = list(range(-12 * 60, 14 * 60 + 1))
    mine = [o for i, o in enumerate(all_offsets) if i % ctx.nshards == ctx.shard]
    ctx.count("offsets_read", len(mine))

    # (a) read
    for off in mine:
        insts = instants(rng, k_inst) if thorough else [rng.choice(instants(rng, 10)), instants(rng, 11)[-1]]
        for fields in insts:
            for sp in offset_spellings(off):
                for name in ([None, rng.choice(NAMES[1:])] if not thorough else [None] + rng.sample(NAMES[1:], 3)):
                    for notation in ("offset", "offset-no-ms"):
                        text = render_dt(fields, notation, sp, name)
                        case = {"op": "read-dt", "text": text, "notation": notation}
                        check_read_dt(ctx, DT, text, notation, case)
                        ctx.distinct(text)
                t = render_dt(fields, "offset", sp, None)[8:]
                check_read_time(ctx, TM, t, {"op": "read-time", "text": t})
                ctx.distinct("T" + t)
        if off % 97 == 0:
            ctx.sample({"op": "read", "text": text})
    for fields in instants(rng, 40 if not thorough else 400):
        for notation in ("date", "datetime", "ms"):
            text = render_dt(fields, notation)
            check_read_dt(ctx, DT, text, notation, {"op": "read-dt", "text": text, "notation": notation})
            ctx.distinct(text)
        for t in (render_dt(fields, "datetime")[8:], render_dt(fields, "ms")[8:]):
            check_read_time(ctx, TM, t, {"op": "read-time", "text": t})

    # (b) reject
    for fields in instants(rng, 12 if not thorough else 200):
        off = rng.choice(all_offsets)
        sp = rng.choice(offset_spellings(off))
        for notation in ("date", "datetime", "ms", "offset", "offset-no-ms"):
            text = render_dt(fields, notation, sp, rng.choice(NAMES))
            for bad, what in corruptions(text, "dt"):
                check_reject(ctx, DT, bad, what, {"op": "reject-dt", "text": bad, "what": what})
                ctx.distinct("R" + bad)
        for t in (render_dt(fields, "datetime")[8:], render_dt(fields, "ms")[8:], render_dt(fields, "offset", sp, None)[8:]):
            for bad, what in corruptions(t, "time"):
                check_reject(ctx, TM, bad, what, {"op": "reject-time", "text": bad, "what": what})
    ctx.sample({"op": "reject", "text": bad, "what": what})

    # (c)/(d) write, write->read
    for off in mine:
        for j in range(2 if not thorough else 40):
            y, mo, d, h, mi, s, ms = rng.choice(instants(rng, 12))
            us = rng.choice([0, ms * 1000, rng.randint(0, 999999), 999500, 999499, 999999, 500, 499])
            name = rng.choice(NAMES)
            tz = datetime.timezone(datetime.timedelta(minutes=off), name) if (j % 2 == 0 and name is not None) else (
                datetime.timezone(datetime.timedelta(minutes=off)) if name is None else FixedTz(off, name))
            if j % 3 == 2:
                tz = FixedTz(off, name)
            bare = (off + j) % 5 == 0
            if bare:
                tz, name = BareTz(off), None  # aware (it has an offset), and has no name to give
                ctx.count("values_in_zones_without_tzname")
            if (y, mo, d) == (2199, 12, 31) or (y, mo, d) == (1900, 1, 1):
                y = 2100  # keep instant +- offset inside 1900-2200
            v = datetime.datetime(y, mo, d, h, mi, s, us, tzinfo=tz)
            check_write_dt(ctx, DT, v, {"op": "write-dt", "fields": [y, mo, d, h, mi, s, us], "off": off, "name": name, "custom_tz": isinstance(tz, FixedTz), "bare_tz": bare})
            ctx.distinct(("W", y, mo, d, h, mi, s, us, off, name))
            tv = datetime.time(h, mi, s, us, tzinfo=BareTz(off) if bare else datetime.timezone(datetime.timedelta(minutes=off), name or "Z"))
            check_write_time(ctx, TM, tv, {"op": "write-time", "fields": [h, mi, s, us], "off": off, "name": name, "bare_tz": bare})
        if off % 131 == 0:
            ctx.sample({"op": "write", "value": repr(v), "text": DT.unconvert(v)})
    # (c') zones whose offset depends on the date: around both yearly offset changes, on either side and inside the repeated hour
    for zi, (std, shift, names) in enumerate(DST_ZONES):
        tz = DstTz(std, shift, names)
        for year in ([2021, 2007 + ctx.shard] if not thorough else range(1990, 2100, 3)):
            for t in tz.transitions(year):
                for base in (t, t - datetime.timedelta(minutes=shift), t + datetime.timedelta(minutes=shift)):
                    for dus in (0, -1, -400, -499, -500, -501, -999, -1000, 1, 499, 500, 999500 - 10**6, -30 * 60 * 10**6, 30 * 60 * 10**6):
                        for fold in (0, 1):
                            v = (base + datetime.timedelta(microseconds=dus)).replace(tzinfo=tz, fold=fold)
                            ctx.count("write_dst_zone_values")
                            check_write_dt(ctx, DT, v, {"op": "write-dt-dst", "zone": zi, "naive": [v.year, v.month, v.day, v.hour, v.minute, v.second, v.microsecond], "fold": fold})
    # opposite signs of the same sub-hour offset in one process, both orders (state carried between calls)
    for m in range(1 + ctx.shard, 60, ctx.nshards):
        m2 = (m + 7) % 59 + 1
        for first, second in ((f"-0.{m:02d}", f"+0.{m:02d}"), (f"+0.{m2:02d}", f"-0.{m2:02d}")):
            for sp in (first, second, first):
                text = f"20240315120000.000[{sp}]"
                check_read_dt(ctx, DT, text, "offset", {"op": "read-dt", "text": text, "notation": "offset"})
                check_read_time(ctx, TM, f"120000.000[{sp}]", {"op": "read-time", "text": f"120000.000[{sp}]"})
    # a text valid for ONE of the two types must be refused by the other - also after the first has read it
    for fields in instants(rng, 30):
        off = rng.choice(all_offsets)
        sp = rng.choice(offset_spellings(off))
        dtext = render_dt(fields, rng.choice(["datetime", "ms", "offset", "offset-no-ms"]), sp, rng.choice(NAMES))
        ttext = dtext[8:]
        for (good, bad, text) in ((DT, TM, dtext), (TM, DT, ttext)):
            try:
                good.convert(text)
            except Exception:
                pass
            try:
                (R.parse_time if bad is TM else R.parse_datetime)(text)
                continue  # the other notation happens to accept it too
            except R.Unspecified:
                continue
            except R.Reject:
                pass
            check_reject(ctx, bad, text, "text-of-the-other-type", {"op": "reject-time" if bad is TM else "reject-dt", "text": text, "what": "text-of-the-other-type"})
    # naive values are refused - incl. values whose tzinfo yields no offset (naive by Python's definition)
    class NoOffset(datetime.tzinfo):
        def utcoffset(self, dt):
            return None if dt is None else datetime.timedelta(hours=-5)

        def tzname(self, dt):
            return "EST5EDT"

        def dst(self, dt):
            return None

    class NeverOffset(datetime.tzinfo):
        def utcoffset(self, dt):
            return None

        def tzname(self, dt):
            return "X"

        def dst(self, dt):
            return None

    for val, conv in ((datetime.time(17, 0, tzinfo=NoOffset()), TM), (datetime.time(1, 2, 3, tzinfo=NeverOffset()), TM), (datetime.datetime(2020, 1, 1, tzinfo=NeverOffset()), DT)):
        ctx.ev()
        ctx.count("naive_checked")
        for op in ("unconvert", "convert"):
            try:
                r = getattr(conv, op)(val)
            except Exception:
                continue
            ctx.violation(f"naive-accepted/{type(conv).__name__}.{op}", f"{op}({val!r}) -> {r!r} (utcoffset() is None: a naive value)", {"op": "naive-tz", "which": type(conv).__name__})
    for j in range(50):
        y, mo, d, h, mi, s, ms = rng.choice(instants(rng, 12))
        for conv, val in ((DT, datetime.datetime(y, mo, d, h, mi, s)), (TM, datetime.time(h, mi, s))):
            ctx.ev()
            ctx.count("naive_checked")
            for op in ("unconvert", "convert"):
                try:
                    r = getattr(conv, op)(val)
                except Exception:
                    continue
                ctx.violation(f"naive-accepted/{type(conv).__name__}.{op}", f"{op}({val!r}) -> {r!r}", {"op": "naive", "which": type(conv).__name__, "fields": [y, mo, d, h, mi, s]})


def replay(ctx, case):
    R.selftest()
    from ofxtools.Types import DateTime, Time

    DT, TM = DateTime(), Time()
    op = case["op"]
    if op == "read-dt":
        check_read_dt(ctx, DT, case["text"], case.get("notation", "?"), case)
    elif op == "read-time":
        check_read_time(ctx, TM, case["text"], case)
    elif op == "reject-dt":
        check_reject(ctx, DT, case["text"], case["what"], case)
    elif op == "reject-time":
        check_reject(ctx, TM, case["text"], case["what"], case)
    elif op == "write-dt":
        tz = BareTz(case["off"]) if case.get("bare_tz") else FixedTz(case["off"], case["name"]) if case.get("custom_tz") else datetime.timezone(datetime.timedelta(minutes=case["off"]), *( [case["name"]] if case["name"] is not None else []))
        check_write_dt(ctx, DT, datetime.datetime(*case["fields"], tzinfo=tz), case)
    elif op == "write-dt-dst":
        std, shift, names = DST_ZONES[case["zone"]]
        check_write_dt(ctx, DT, datetime.datetime(*case["naive"], tzinfo=DstTz(std, shift, names), fold=case["fold"]), case)
    elif op == "write-time":
        check_write_time(ctx, TM, datetime.time(*case["fields"], tzinfo=BareTz(case["off"]) if case.get("bare_tz") else datetime.timezone(datetime.timedelta(minutes=case["off"]), case["name"] or "Z")), case)
