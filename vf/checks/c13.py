"""C13 - every child a model class declares can actually be built, written and
read back; every class is found by its tag; every exclusivity group is in force.

A finite space, enumerated completely each run: every exported class x every
declared child (construct / write / read probe on the real classes), every
pair of list-member types in both orders, every group x every pair of members.
"""
import random
import xml.etree.ElementTree as ET

from vf.core import hostile_history
from vf.gen import instances
from vf.oracles import modelwalk, ref_decl, spec

PROP = "C13"
LEVEL = "exploration"
TECHNIQUE = "exhaustive per-child construct/write/read probe on the live classes (post-conditions on the constructor, to_etree and from_etree), class lookup by tag, behavioural in-force probe of every exclusivity group"
RULE = ("EVERY exported Aggregate class x EVERY declared child: build a minimal valid instance containing it, to_etree() must carry it under "
        "the child's OFX tag, from_etree(to_etree()) must put an equal value back into the same attribute / list position; every pair of "
        "list-member types in both orders; every class found by its tag and every declared child type exported; list(cls.spec) equals the "
        "independently derived order; every exclusivity group (declared on the class or any base/mixin) names existing optional children and "
        "rejects every pair of its members, required groups also reject 'none'. A case = (class, child | pair | group); all are non-trivial")
ASSUMPTIONS = ["children are derived by an independent MRO walk (ref_decl.py) AND compared with vf/oracles/spec_table.json (frozen copy of the reviewed declarations): a child the table lists "
               "but the class no longer declares is witnessed by reading a document that carries it",
               "a repeated child may occur any number of times (probed with three copies), except in classes with a validation rule of their own (ACCTINFO)",
               "'non-repeated' in the statement is read behaviourally: a group naming a repeated child is in order iff the constructor counts "
               "list members of that type, i.e. the group can fire (checked by building the offending pair)",
               "plain ASCII values are used so that the probe isolates reachability (value fidelity is C01/C03's business)"]
LEVEL_TEXT = ("Exhaustive over a finite space: all ~390 classes, ~2100 declared children, all list-member type pairs and all exclusivity groups are "
              "probed on the live classes every run (exhaustive: true). The deciding observation is behavioural (built / written / read back / "
              "rejected), not a grep over class attributes.")
LEVEL_NOTE = "Finite and fully enumerated for the class set importable from ofxtools.models at run time; trusts ref_decl's MRO walk and the generator's minimal instances."
DESIGN_REF = "DESIGN.md §3 C13"
EXHAUSTIVE = {"quick": "all classes x all declared children x all member-type pairs x all exclusivity groups",
              "thorough": "same, with 5 differently seeded minimal/random base instances per probe"}
MIN_COUNTERS = {"quick": {"classes_compared_with_spec_table": 380, "classes": 380, "children_probed": 2000, "groups_probed": 80, "member_pairs_probed": 300, "lookup_probed": 380},
                "thorough": {"classes": 380, "children_probed": 10000, "groups_probed": 400, "member_pairs_probed": 1500, "lookup_probed": 380}}


def shards(tier):
    return 16


def timeout(tier):
    return 900 if tier == "quick" else 5400


def opts(**kw):
    return instances.Opts(stratum="plain", **kw)


def find_child_elems(elem, tag):
    return [c for c in elem if c.tag == tag]


def probe_child(ctx, name, cls, attr, t, seedstr, profile):
    from ofxtools.models.base import Aggregate

    kind = ref_decl.kind_of(t)
    ctx.ev()
    ctx.count("children_probed")
    case = {"op": "child", "cls": name, "attr": attr, "seedstr": seedstr, "profile": profile}
    key = f"{name}.{attr}"
    try:
        inst = instances.build(cls, random.Random(seedstr), profile, opts=opts(force=[attr]))
    except instances.ConstructorRejected as e:
        ctx.violation(f"child-unreachable/{key}", f"cannot construct {name} containing {attr}: {e}", case)
        return
    # present in the instance?
    if kind in ("elem", "sub"):
        val = inst.__dict__.get(attr)
        if val is None:
            ctx.violation(f"child-not-stored/{key}", f"{name}({attr}=...) built but the attribute is None", case)
            return
        mpos = None
    else:
        mpos = [i for i, m in enumerate(list.__iter__(inst))
                if (kind == "listagg" and isinstance(m, t.__type__) and type(m).__name__.lower() == attr) or (kind == "listelem" and not isinstance(m, Aggregate))]
        if not mpos:
            ctx.violation(f"child-not-stored/{key}", f"{name} built with a {attr} member but the list holds none", case)
            return
    # written under the child's tag?
    try:
        elem = inst.to_etree()
    except Exception as e:
        ctx.violation(f"write-raises/{key}", f"{name}.to_etree() raised {e!r}", case)
        return
    tag = ref_decl.tag_of(cls, attr)
    found = find_child_elems(elem, tag)
    if not found:
        ctx.violation(f"child-not-written/{key}", f"{name}.to_etree() has no <{tag}> child (children: {[c.tag for c in elem][:12]})", case)
        return
    if kind in ("listagg", "listelem") and len(found) != len(mpos):
        ctx.violation(f"child-not-written/{key}", f"{name}: {len(mpos)} {attr} members but {len(found)} <{tag}> elements written", case)
        return
    # read back into the same place?
    try:
        back = Aggregate.from_etree(elem)
    except Exception as e:
        sub = "out-of-order" if "out of order" in str(e) else "unknown-class" if "doesn't define" in str(e) else type(e).__name__
        ctx.violation(f"read-raises/{sub}/{key}", f"from_etree(to_etree({name} with {attr})) raised {e!r}", case)
        return
    if type(back) is not cls:
        ctx.violation(f"read-wrong-class/{name}", f"from_etree returned {type(back).__name__}", case)
        return
    d = modelwalk.diff(modelwalk.snap(inst), modelwalk.snap(back))
    if d:
        ctx.violation(f"child-lost-on-read/{key}", f"{name} with {attr}: {d}", case)
        return
    if kind in ("listagg", "listelem") and not ref_decl.overrides_validate_args(cls):
        # (classes with a validation rule of their own - ACCTINFO allows one *ACCTINFO of each kind - are left out)
        # a repeated child may occur any number of times: the same document with this child three times over (adjacent copies)
        import copy
        elem3 = copy.deepcopy(elem)
        kids = list(elem3)
        first = next(i for i, c in enumerate(kids) if c.tag == tag)
        for _ in range(2):
            elem3.insert(first, copy.deepcopy(kids[first]))
        ctx.ev()
        ctx.count("repeated_children_tripled")
        try:
            back3 = Aggregate.from_etree(elem3)
        except Exception as e:
            ctx.violation(f"repeated-child-refused-when-repeated/{key}", f"{name}: three <{tag}> children instead of one: from_etree raised {e!r}", case)
            return
        n3 = len(list(list.__iter__(back3)))
        if n3 != len(list(list.__iter__(back))) + 2:
            ctx.violation(f"repeated-child-lost-when-repeated/{key}", f"{name}: three <{tag}> children read as {n3} members (one copy gave {len(list(list.__iter__(back)))})", case)
            return
        # and built by keyword/positional construction with the members the reader produced, then written again
        try:
            again = Aggregate.from_etree(back3.to_etree())
            if modelwalk.diff(modelwalk.snap(back3), modelwalk.snap(again)):
                ctx.violation(f"repeated-child-lost-when-repeated/{key}", f"{name}: model with three {attr} members changes on write/read", case)
        except Exception as e:
            ctx.violation(f"repeated-child-refused-when-repeated/{key}", f"{name} with three {attr} members: write/read raised {e!r}", case)


def probe_member_pairs(ctx, name, cls, seedstr):
    from ofxtools.models.base import Aggregate

    d = ref_decl.decl(cls)
    lists = [k for k, t in d.items() if ref_decl.kind_of(t) == "listagg"]
    if len(lists) < 2:
        return
    runs = instances.list_runs(cls)
    rng = random.Random(seedstr)
    pairs = [(a, b) for a in lists for b in lists if a != b]
    if len(pairs) > 60:
        # all types still appear in both positions; sample the rest deterministically
        keep = [(lists[i], lists[(i + 1) % len(lists)]) for i in range(len(lists))] + [(lists[(i + 1) % len(lists)], lists[i]) for i in range(len(lists))]
        pairs = keep + rng.sample(pairs, 40)
    try:
        base_args, base_kwargs = instances.make_args(cls, rng, "min", 0, opts(exclude=lists))
    except Exception as e:
        ctx.count("pair_base_failed")
        return
    base_args = [a for a in base_args if not isinstance(a, Aggregate)]
    optm, reqm = ref_decl.mutexes_in_force(cls)
    for a, b in pairs:
        if any(a in g and b in g for g in optm + reqm):
            continue
        if any((a in g or b in g) and any(o in base_kwargs and o not in (a, b) for o in g) for g in optm + reqm):
            continue  # the base already holds another member of a's or b's group: that interplay is probed separately
        ctx.ev()
        ctx.count("member_pairs_probed")
        case = {"op": "pair", "cls": name, "pair": [a, b], "seedstr": seedstr}
        try:
            ma = instances.child_value(cls, a, rng, opts())
            mb = instances.child_value(cls, b, rng, opts())
            extra = []
            if name == "TAX1099RS" and not (a.startswith("tax1099") or b.startswith("tax1099")):
                extra = [instances.child_value(cls, "tax1099misc_v100", rng, opts())]
            inst = cls(*(base_args + [ma, mb] + extra), **base_kwargs)
        except Exception as e:
            if name == "ACCTINFO" or ref_decl.overrides_validate_args(cls) and "must contain" in str(e):
                ctx.count("pair_skipped_custom_rule")
                continue
            ctx.violation(f"member-pair-rejected/{name}", f"{name}({a.upper()}, {b.upper()}) rejected: {e!r}", case)
            continue
        same_run = runs.get(a) == runs.get(b)
        try:
            back = Aggregate.from_etree(inst.to_etree())
        except Exception as e:
            if not same_run and runs[a] > runs[b]:
                ctx.count("unspecified_cross_run_order")
                continue
            ctx.violation(f"member-pair-unreadable/{name}", f"{name} with members ({a}, {b}): own output rejected: {e!r}", case)
            continue
        want = [type(m).__name__ for m in list.__iter__(inst)]
        got = [type(m).__name__ for m in list.__iter__(back)]
        if same_run and got != want:
            ctx.violation(f"member-order-changed/{name}", f"{name}: members {want} read back as {got}", case)
        elif not same_run and sorted(got) != sorted(want):
            ctx.violation(f"member-lost/{name}", f"{name}: members {want} read back as {got}", case)


def probe_groups(ctx, name, cls, seedstr):
    d = ref_decl.decl(cls)
    opt_any, req_any = ref_decl.mutexes_declared_anywhere(cls)
    opt_force, req_force = ref_decl.mutexes_in_force(cls)
    rng = random.Random(seedstr)
    all_groups = [("optional", g) for g in opt_any] + [("required", g) for g in req_any]
    # a declaration that is not a list of lists (a generator expression, a map object ...) is used up by whoever reads it first:
    # from then on the group "can never fire"
    for base in cls.__mro__:
        for attr in ("optionalMutexes", "requiredMutexes"):
            v = vars(base).get(attr)
            if v is not None and not isinstance(v, (list, tuple)):
                ctx.violation(f"mutex-declaration-is-one-shot/{base.__name__}.{attr}", f"{base.__name__}.{attr} is a {type(v).__name__}, not a list: after its first use no group is left", 
                              {"op": "group", "cls": name, "group": [], "kind": attr, "seedstr": seedstr})
    # ... and the groups the reviewed declarations hold for this class (frozen table) are probed whether or not they are still found
    te = spec.table().get(name)
    if te is not None:
        for gkind, key in (("optional", "at_most_one"), ("required", "exactly_one")):
            for g in te.get(key, []):
                if (gkind, list(g)) not in [(k, list(x)) for k, x in all_groups]:
                    all_groups.append((gkind, list(g)))
                    ctx.count("groups_taken_from_spec_table_only")
    for gkind, group in all_groups:
        group = list(group)
        ctx.ev()
        ctx.count("groups_probed")
        case = {"op": "group", "cls": name, "group": group, "kind": gkind, "seedstr": seedstr}
        gkey = f"{name}[{','.join(group)}]"
        declared_here = any(list(g) == group for g in (opt_force if gkind == "optional" else req_force))
        missing = [g for g in group if g not in d]
        if missing:
            if not declared_here:
                ctx.count("inherited_group_not_applicable")
                continue  # a mixin's group that does not concern this class's children
            ctx.violation(f"mutex-names-unknown-child/{gkey}", f"group {group} of {name} names undeclared children {missing}", case)
            continue
        req_members = [g for g in group if getattr(d[g], "required", False)]
        if req_members:
            ctx.violation(f"mutex-names-required-child/{gkey}", f"group {group} of {name} names required children {req_members}", case)
            continue
        others = set()
        for _, g2 in all_groups:
            if set(g2) & set(group):
                others |= set(g2)
        # every pair must be rejected; each member alone must be accepted
        for i, a in enumerate(group):
            try:
                args, kwargs = instances.make_args(cls, rng, "min", 0, opts(force=[a], exclude=[x for x in others if x != a]))
                alone = cls(*args, **kwargs)
            except Exception as e:
                ctx.violation(f"mutex-member-alone-rejected/{gkey}", f"{name} with only {a} of {group} rejected: {e!r}", case)
                continue
            for b in group[i + 1:]:
                ctx.ev()
                vb = instances.child_value(cls, b, rng, opts())
                a2, k2 = list(args), dict(kwargs)
                if ref_decl.kind_of(d[b]) in ("listagg", "listelem"):
                    a2.append(vb)
                else:
                    k2[b] = vb
                try:
                    both = cls(*a2, **k2)
                except Exception:
                    continue
                why = ("names-repeated-child" if any(ref_decl.kind_of(d[x]) in ("listagg", "listelem") for x in (a, b))
                       else "shadowed-by-base-order" if not declared_here else "not-enforced")
                ctx.violation(f"mutex-not-in-force/{why}/{gkey}", f"{name} accepted both {a} and {b} of {gkind} group {group}", case)
        if gkind == "required":
            ctx.ev()
            try:
                args, kwargs = instances.make_args(cls, rng, "min", 0, opts(exclude=list(others)))
                cls(*args, **kwargs)
                ctx.violation(f"required-group-none-accepted/{gkey}", f"{name} accepted none of required group {group}", case)
            except Exception:
                pass


def probe_lookup(ctx, name, cls, exported, defined):
    import ofxtools.models as M
    from ofxtools.models.base import Aggregate

    ctx.ev()
    ctx.count("lookup_probed")
    case = {"op": "lookup", "cls": name}
    if getattr(M, name, None) is not cls:
        ctx.violation(f"class-not-found-by-tag/{name}", f"ofxtools.models.{name} is {getattr(M, name, None)!r}", case)
        return
    try:
        inst = instances.build(cls, random.Random("lookup/" + name), "min", opts=opts())
        back = Aggregate.from_etree(ET.fromstring(ET.tostring(inst.to_etree())))
        if type(back) is not cls:
            ctx.violation(f"class-not-found-by-tag/{name}", f"<{name}> parsed into {type(back).__name__}", case)
    except instances.ConstructorRejected as e:
        ctx.violation(f"minimal-instance-rejected/{name}", str(e)[:300], case)
    except Exception as e:
        ctx.violation(f"class-not-found-by-tag/{name}", f"parsing <{name}> raised {e!r}", case)
    # declared child types must themselves be exported (found by their tag)
    for attr, t in ref_decl.decl(cls).items():
        if ref_decl.kind_of(t) in ("sub", "listagg"):
            ct = t.__type__
            if getattr(M, ct.__name__, None) is not ct:
                ctx.violation(f"class-not-found-by-tag/{ct.__name__}", f"{name}.{attr} is a {ct.__name__}, which ofxtools.models does not export", case)
    # spec order
    if list(cls.spec) != list(ref_decl.decl(cls)):
        ctx.violation(f"spec-order/{name}", f"list({name}.spec) = {list(cls.spec)[:8]}... differs from declared order {list(ref_decl.decl(cls))[:8]}...", case)


def probe_spec_table(ctx, classes):
    """Children the frozen specification table lists for a class but the live class no longer declares (a declaration that fell out
    of the class body - a stray comma makes it a tuple): witnessed by execution - a document carrying that child is read and the
    child is not in the model."""
    import warnings
    import xml.etree.ElementTree as ET
    from ofxtools.models.base import Aggregate
    from vf.gen import values
    from vf.oracles import spec

    rng = random.Random("C13/spec")
    n = 0
    for name, c in spec.table().items():
        cls = classes.get(name)
        if cls is None:
            ctx.ev()
            ctx.violation(f"class-of-specification-table-missing/{name}", f"ofxtools.models.{name} no longer exists", {"op": "spec", "cls": name})
            continue
        live = ref_decl.decl(cls)
        n += 1
        for k, e in c["children"]:
            if k in live or e["kind"] == "unsupported":
                continue
            ctx.ev()
            case = {"op": "spec", "cls": name, "attr": k}
            try:
                inst = instances.build(cls, random.Random(f"C13/spec/{name}"), "min", opts=opts())
                elem = inst.to_etree()
                if e["kind"] in ("sub", "listagg"):
                    child = instances.build(classes[e["cls"]], random.Random(f"C13/spec/{name}/{k}"), "min", opts=opts()).to_etree()
                else:
                    g = spec.gold(name, k)
                    child = ET.Element(k.upper())
                    child.text = g.unconvert(values.gen_value(rng, g))
                elem.append(child)
                with warnings.catch_warnings(record=True) as w:
                    warnings.simplefilter("always")
                    back = Aggregate.from_etree(elem)
                held = back.__dict__.get(k) is not None or any(type(m).__name__.lower() == k for m in list.__iter__(back))
                outcome = f"read gave {len(w)} warning(s) {[str(x.message)[:80] for x in w][:1]}, child in model: {held}"
            except Exception as ex:
                held, outcome = False, f"raised {ex!r}"
            if not held:
                ctx.violation(f"declared-child-unreachable/{name}.{k}", f"the specification table lists {k} ({e['kind']}) as a child of {name}; the class does not declare it: {outcome}", case)
    ctx.count("classes_compared_with_spec_table", n)


def run_shard(ctx):
    classes = ref_decl.all_classes()
    defined = ref_decl.defined_classes()
    if ctx.shard % 2 == 0:
        # half of the shards use the base classes' own class-level API first (order of first use must not matter)
        ctx.count("base_classes_used_first", ref_decl.touch_base_classes())
    if ctx.shard % 4 in (0, 1):
        # ... and half of them have read other documents before (every broken / unusual predecessor once)
        for idx in range(len(hostile_history.BODIES) * len(hostile_history.HEADERS)):
            hostile_history.disturb(None, idx)
        ctx.count("documents_read_before", len(hostile_history.HISTORY))
    thorough = ctx.tier == "thorough"
    reps = 1 if not thorough else 25
    if ctx.shard == 0:
        for nm, c in defined.items():
            ctx.ev()
            if classes.get(nm) is not c:
                ctx.violation(f"class-not-found-by-tag/{nm}", f"{c.__module__}.{nm} is defined but ofxtools.models.{nm} is {classes.get(nm)!r}", {"op": "lookup", "cls": nm})
    if ctx.shard == 1 % ctx.nshards:
        probe_spec_table(ctx, classes)
    for ci, (name, cls) in enumerate(classes.items()):
        if ci % ctx.nshards != ctx.shard:
            continue
        ctx.count("classes")
        probe_lookup(ctx, name, cls, classes, defined)
        for attr, t in ref_decl.decl(cls).items():
            if ref_decl.kind_of(t) == "unsupported":
                continue
            for r in range(reps):
                probe_child(ctx, name, cls, attr, t, f"C13/{ctx.seed}/{name}/{attr}/{r}", "min" if r % 2 == 0 else "random")
            ctx.distinct((name, attr))
        for r in range(reps):
            probe_member_pairs(ctx, name, cls, f"C13/{ctx.seed}/{name}/pairs/{r}")
            probe_groups(ctx, name, cls, f"C13/{ctx.seed}/{name}/groups/{r}")
        if ci % 50 == 0:
            ctx.sample({"cls": name, "children": list(ref_decl.decl(cls))[:10], "groups": [list(map(list, g)) for g in ref_decl.mutexes_declared_anywhere(cls)]})


def replay(ctx, case):
    classes = ref_decl.all_classes()
    ref_decl.touch_base_classes()
    for idx in range(len(hostile_history.BODIES) * len(hostile_history.HEADERS)):
        hostile_history.disturb(None, idx)
    name = case["cls"]
    cls = classes.get(name)
    op = case["op"]
    if cls is None:
        ctx.ev()
        ctx.violation(f"class-not-found-by-tag/{name}", "class not exported", case)
        return
    if op == "spec":
        probe_spec_table(ctx, classes)
        return
    if op == "child":
        probe_child(ctx, name, cls, case["attr"], ref_decl.decl(cls)[case["attr"]], case["seedstr"], case["profile"])
    elif op == "pair":
        probe_member_pairs(ctx, name, cls, case["seedstr"])
    elif op == "group":
        probe_groups(ctx, name, cls, case["seedstr"])
    else:
        probe_lookup(ctx, name, cls, classes, ref_decl.defined_classes())
