"""C07 - unknown and vendor-specific tags never change or break the converted result.

Monitor: convert(document + insertions) must return, and its canonical model
snapshot must equal that of convert(document) - at element-tree level
(Aggregate.from_etree) and at text level (OFXTree.parse + convert on XML and
end-tag-less SGML renderings, the library's own and independently rendered).
"""
import copy
import io
import random
import warnings
import xml.etree.ElementTree as ET
from xml.sax import saxutils

from vf.gen import instances, render
from vf.oracles import modelwalk, ref_decl

PROP = "C07"
LEVEL = "exploration"
TECHNIQUE = "metamorphic runtime monitor: convert(D + unknown/vendor insertions) vs convert(D), compared by an independent model walker; insertion kinds x every child position x element-tree and text level (XML, SGML)"
RULE = ("valid documents of every class x insertion kinds {unknown data element, unknown empty element, unknown aggregate with arbitrary content, "
        "unknown aggregate whose content repeats children the PARENT defines, known-elsewhere aggregate not declared by the parent, unknown tag named like a Python attribute of the model class (COUNT, INDEX, ACCOUNT, ...), vendor data "
        "element INTU.BID, vendor aggregate, vendor aggregate containing parent-defined children} x child positions (5 random per aggregate in "
        "quick; EVERY position of every aggregate for documents <= 60 nodes in thorough) x 1-4 simultaneous insertions, at ET.Element level and "
        "at text level in XML / unclosed-SGML / independently rendered mixed form. A case = (class, seed, insertion set, level)")
ASSUMPTIONS = ["an inserted tag is never one the enclosing class declares (nor FROM/FRM/YIELD/YLD, which groom hooks rename)",
               "inserted names: fixed ones plus undefined names of 1-64 characters; the same tag up to three times in succession; one 1500-deep unknown subtree per document on the tree route (the harness' own renderer is recursive)",
               "modelwalk equality; warnings are recorded, not judged"]
LEVEL_TEXT = ("Exploration: the skip-unknown-tag logic is a few lines in _convert/groom, but its interaction with the order index, list-member "
              "flag and sub-aggregate recursion depends on WHERE the tag sits; every position of every aggregate of documents of all classes is "
              "probed (thorough) with all insertion kinds, on both levels.")
LEVEL_NOTE = "Trusts the generator's documents and modelwalk; the reference result is the library's own conversion of the undisturbed document (metamorphic oracle), whose fidelity is C01/C03's business."
DESIGN_REF = "DESIGN.md §3 C07"
MIN_COUNTERS = {"quick": {"etree_insertions": 15000, "text_insertions": 3000, "classes": 380, "between_list_members": 200}, "thorough": {"etree_insertions": 250000, "text_insertions": 30000, "classes": 380}}

V1HDR = "OFXHEADER:100\r\nDATA:OFXSGML\r\nVERSION:160\r\nSECURITY:NONE\r\nENCODING:UNICODE\r\nCHARSET:NONE\r\nCOMPRESSION:NONE\r\nOLDFILEUID:NONE\r\nNEWFILEUID:NONE\r\n\r\n"
KINDS = ["unknown-data", "unknown-empty", "unknown-agg", "unknown-agg-parent-children", "known-elsewhere-agg", "vendor-data", "vendor-agg", "vendor-agg-parent-children",
         "unknown-named-like-python-attribute", "known-elsewhere-agg-broken", "unknown-agg-deep", "data-tag-as-agg"]
RENAMED = {"FROM", "FRM", "YIELD", "YLD"}


def shards(tier):
    return 16


def timeout(tier):
    return 900 if tier == "quick" else 5400


def declared_tags(cls):
    return {ref_decl.tag_of(cls, k) for k in ref_decl.decl(cls)} | {k.upper() for k in ref_decl.decl(cls)}


def leaf(tag, text):
    e = ET.Element(tag)
    e.text = text
    return e


def odd_name(rng, prefix=""):
    """An undefined tag of an unusual shape: very short, as long as or longer than any defined tag (the longest is 23), digits, '_' and '.'."""
    n = rng.choice([1, 2, 3, 23, 24, 31, 32, 33, 40, 64])
    alphabet = rng.choice(["ABCDEFGHIJKLMNOPQRSTUVWXYZ", "ABCXYZ0123456789", "ABCXYZ_", "QZ9_"])
    body = "".join(rng.choice(alphabet) for _ in range(n))
    if body[0] in "0123456789_":
        body = "Z" + body[1:]
    return prefix + "ZZ" + body if not prefix else prefix + body


def reserved_name(rng):
    """Tag names that are words of the implementation language (keywords, built-ins, dunder-free special names): to OFX they are
    names like any other.  (None of them is an HTML void element: the "xml" text form is written by ET.tostring(method="html"),
    which leaves the end tag of INPUT, LINK, ... out.)"""
    return rng.choice(["CLASS", "PASS", "RETURN", "IN", "FOR", "WITH", "GLOBAL", "IMPORT", "LAMBDA", "NONE", "TRUE", "DEF", "DEL", "IS", "NOT", "OR", "AND", "TRY",
                       "SELF", "TYPE", "LIST", "DICT", "ID", "PRINT", "EVAL", "EXEC", "OBJECT", "SUPER", "ELEMENTS", "SPEC"])


def make_insertion(kind, rng, parent_elem, parent_cls, classes):
    """-> ET.Element to insert, or None when the kind is not applicable here."""
    decl = declared_tags(parent_cls) | RENAMED
    if kind == "unknown-data":
        return leaf(rng.choice(["ZZUNKNOWN", "XMEMO2", "Q9", "NEWTAG", odd_name(rng), odd_name(rng), reserved_name(rng)]), rng.choice(["text", "1", "a&b", "20200101"]))
    if kind == "unknown-named-like-python-attribute":
        # an undeclared tag whose lower-cased name happens to be an attribute of the model class (list methods,
        # convenience properties, machinery): it is still just an unknown tag
        names = [n for n in dir(parent_cls) if n.isidentifier() and not n.startswith("_") and n.upper() not in decl and n.lower() == n]
        if not names:
            return None
        n = rng.choice(names).upper()
        if rng.random() < 0.6:
            return leaf(n, rng.choice(["1", "text"]))
        e = ET.Element(n)
        e.append(leaf("CODE", "0"))
        return e
    if kind == "unknown-empty":
        return ET.Element(rng.choice(["ZZEMPTY", "XAGG", odd_name(rng), reserved_name(rng)]))
    if kind == "unknown-agg-deep":
        # an extension nested far deeper than anything OFX itself defines (the text forms go through the tokenizer, too)
        e = ET.Element("ZZDEEP")
        cur = e
        for i in range(rng.choice([12, 24, 40])):
            cur = ET.SubElement(cur, "ZZD" if i % 2 else "ZZE")
        cur.append(leaf("ZZBOTTOM", "x"))
        return e
    if kind == "data-tag-as-agg":
        # an unknown AGGREGATE whose tag the document uses elsewhere (usually earlier) for plain data - here it is an extension
        for n in rng.sample(["MEMO", "CODE", "NAME", "TRNUID", "DTSERVER", "SEVERITY", "LANGUAGE", "ACCTID", "FITID", "ZZUNKNOWN", "NEWTAG", "Q9"], 12):
            if n not in decl and n != parent_elem.tag:
                e = ET.Element(n)
                e.append(leaf("ZZK", "1"))
                inner = ET.SubElement(e, n)   # ... nested in itself once, with data at the bottom
                inner.append(leaf("ZZV", "2"))
                return e
        return None
    if kind == "unknown-agg":
        e = ET.Element(rng.choice(["ZZAGG", odd_name(rng), reserved_name(rng)]))
        e.append(leaf("TRNUID", "1"))
        st = ET.SubElement(e, "STATUS")
        st.append(leaf("CODE", "0"))
        st.append(leaf("SEVERITY", "INFO"))
        e.append(leaf("ZZINNER", "x"))
        return e
    if kind in ("unknown-agg-parent-children", "vendor-agg-parent-children"):
        if len(parent_elem) == 0:
            return None
        e = ET.Element(rng.choice(["ZZWRAP", odd_name(rng)]) if kind.startswith("unknown") else rng.choice(["INTU.EXT", "INTU.PENDING", "CHASE.X", odd_name(rng, "INTU.")]))
        for c in rng.sample(list(parent_elem), min(len(parent_elem), rng.randint(1, 3))):
            e.append(copy.deepcopy(c))
        return e
    if kind == "known-elsewhere-agg":
        for name in rng.sample(["STATUS", "BANKACCTFROM", "CURRENCY", "BAL", "SECID", "INVTRAN", "FI"], 7):
            if name not in decl and name != parent_elem.tag:
                try:
                    return instances.build(classes[name], rng, "min", 1, instances.Opts(stratum="plain")).to_etree()
                except Exception:
                    continue
        return None
    if kind == "known-elsewhere-agg-broken":
        # a tag that names a model class somewhere else in OFX, with content that class would NOT accept (empty, incomplete,
        # foreign): here it is just an unknown aggregate - nobody has any business converting it
        # (incl. the root's own name: a vendor wrapper that quotes a whole document)
        for name in rng.sample(["STATUS", "STMTTRN", "BAL", "LEDGERBAL", "BANKACCTFROM", "CURRENCY", "INVPOSLIST", "SONRS", "FI", "SECID", "OFX", "OFX"], 12):
            if name not in decl and name != parent_elem.tag:
                e = ET.Element(name)
                shape = rng.choice(["empty", "foreign", "incomplete", "misordered"])
                if shape == "foreign":
                    e.append(leaf("ZZWHAT", "1"))
                    e.append(leaf("CODE", "not-a-number"))
                elif shape == "incomplete":
                    e.append(leaf("CODE", "0"))
                elif shape == "misordered":
                    e.append(leaf("SEVERITY", "INFO"))
                    e.append(leaf("CODE", "0"))
                    e.append(leaf("CODE", "0"))
                return e
        return None
    if kind == "vendor-data":
        return leaf(rng.choice(["INTU.BID", "INTU.USERID", "CHASE.MEMO", "A.B.C", odd_name(rng, "INTU.")]), rng.choice(["123", "x y"]))
    if kind == "vendor-agg":
        e = ET.Element(rng.choice(["INTU.XX", "SCHWAB.INFO", odd_name(rng, "INTU."), odd_name(rng, "X.")]))
        e.append(leaf("A", "1"))
        e.append(leaf("INTU.Y", "2"))
        sub = ET.SubElement(e, "CODE")
        sub.text = "0"
        return e
    raise ValueError(kind)


def aggregates_of(elem, classes):
    """[(path, element, class)] of every aggregate node (element whose tag is a model class and that is not a data leaf)."""
    out = []

    def walk(e, path):
        cls = classes.get(e.tag)
        if cls is not None and not (len(e) == 0 and e.text and e.text.strip()):
            out.append((path, e, cls))
        for i, c in enumerate(e):
            if len(c) or not (c.text and c.text.strip()):
                walk(c, path + [i])
    walk(elem, [])
    return out


def node_at(root, path):
    e = root
    for i in path:
        e = e[i]
    return e


def count_nodes(e):
    return 1 + sum(count_nodes(c) for c in e)


def pos_class(parent_cls, parent_elem, pos):
    d = ref_decl.decl(parent_cls)
    lists = {ref_decl.tag_of(parent_cls, k) for k, t in d.items() if ref_decl.kind_of(t) in ("listagg", "listelem")}
    before = parent_elem[pos - 1].tag if pos > 0 else None
    after = parent_elem[pos].tag if pos < len(parent_elem) else None
    if before in lists and after in lists:
        return "between-list-members"
    if pos == 0:
        return "first"
    if pos == len(parent_elem):
        return "last"
    return "middle"


def convert_etree(elem):
    from ofxtools.models.base import Aggregate

    with warnings.catch_warnings(record=True) as w:
        warnings.simplefilter("always")
        m = Aggregate.from_etree(elem)
    return m, len(w)


def convert_text(data):
    from ofxtools.Parser import OFXTree

    with warnings.catch_warnings(record=True) as w:
        warnings.simplefilter("always")
        t = OFXTree()
        t.parse(io.BytesIO(data))
        return t.convert(), len(w)


def to_ref(elem):
    if len(elem) == 0 and elem.text and elem.text.strip():
        return (elem.tag, saxutils.escape(elem.text))
    return (elem.tag, [to_ref(c) for c in elem])


def renderings(elem, rng):
    """(form, bytes) of one element tree in the three text forms."""
    from ofxtools import utils

    out = [("xml", V1HDR.replace("VERSION:160", "VERSION:102").encode() + ET.tostring(elem, encoding="utf_8", method="html")),
           ("sgml-unclosed", V1HDR.encode() + utils.tostring_unclosed_elements(elem, close_empty=True))]
    out.append(("rendered", (V1HDR + render.random_rendering(to_ref(elem), rng)).encode("utf_8")))
    return out


def one_document(ctx, name, cls, seedstr, classes, every_position):
    rng = random.Random(seedstr)
    try:
        inst = instances.build(cls, rng, "random", opts=instances.Opts(maxdepth=5))
    except Exception:
        ctx.count("gen_failed")
        return
    base = inst.to_etree()
    try:
        m0, _ = convert_etree(base)
    except Exception as e:
        ctx.count("base_convert_failed")  # C01's business
        return
    s0 = modelwalk.snap(m0, exact=True)
    aggs = aggregates_of(base, classes)
    nn = count_nodes(base)
    exhaustive = every_position and nn <= 60
    n_etree = 0
    slots = [(path, pe, pcls, pos) for path, pe, pcls in aggs for pos in range(len(pe) + 1)]
    if exhaustive:
        plan = [(s, kind) for s in slots for kind in KINDS]
    else:
        budget = 48 if not every_position else 400
        plan = [(rng.choice(slots), rng.choice(KINDS)) for _ in range(budget)]
        # always include the slots between two list members (where order bookkeeping matters)
        between = [s for s in slots if pos_class(s[2], s[1], s[3]) == "between-list-members"]
        plan += [(s, rng.choice(KINDS[:4])) for s in between[:8]]
    for (path, pe, pcls, pos), kind in plan:
        ins = make_insertion(kind, rng, pe, pcls, classes)
        if ins is None or ins.tag in (declared_tags(pcls) | RENAMED):
            continue
        mod = copy.deepcopy(base)
        node_at(mod, path).insert(pos, ins)
        twice = kind.startswith("unknown") and rng.random() < 0.25
        if twice:
            # the same undefined tag two or three times in direct succession
            for _ in range(rng.choice([1, 1, 2])):
                node_at(mod, path).insert(pos, copy.deepcopy(ins))
            ctx.count("same_unknown_tag_in_succession")
        pc = pos_class(pcls, pe, pos)
        case = {"cls": name, "seedstr": seedstr, "kind": kind, "path": path, "pos": pos, "parent": pe.tag, "level": "etree", "twice": twice}
        check_etree(ctx, mod, s0, kind + ("-repeated" if twice else ""), pc, case)
        n_etree += 1
        ctx.distinct((name, seedstr, kind, tuple(path), pos))
    # one extreme insertion per document: an undefined aggregate nested far deeper than any interpreter stack (tree route only:
    # the harness' own renderer is recursive)
    import sys as _sys
    if slots and _sys.modules.get("_elementtree", True) is None:
        ctx.count("unspecified_deep_subtree_without_c_accelerator")  # pure-Python ElementTree: copy.deepcopy itself cannot go that deep
    elif slots:
        path, pe, pcls, pos = rng.choice(slots)
        deep = ET.Element("ZZDEEP")
        cur = deep
        for i in range(1500):
            cur = ET.SubElement(cur, "ZZD" if i % 2 else "ZZE")  # no vendor prefix: those are stripped before anything looks inside
        cur.text = "bottom"
        mod = copy.deepcopy(base)
        node_at(mod, path).insert(pos, deep)
        ctx.count("deep_unknown_subtrees")
        check_etree(ctx, mod, s0, "unknown-agg-1500-deep", pos_class(pcls, pe, pos), {"cls": name, "seedstr": seedstr, "kind": "deep", "level": "etree"})
        n_etree += 1
    # text-level baselines: the undisturbed document in each form
    base_text = {}
    for form, data in renderings(base, rng):
        try:
            mb, _ = convert_text(data)
            base_text[form] = modelwalk.snap(mb, exact=True)
        except Exception:
            ctx.count("base_text_convert_failed")  # C01's business
    # simultaneous insertions (2-4) + text level
    for r in range(3 if not every_position else 8):
        mod = copy.deepcopy(base)
        k = rng.randint(1, 4)
        used = []
        for _ in range(k):
            path, pe, pcls = rng.choice(aggs)
            target = node_at(mod, path)
            kind = rng.choice(KINDS)
            ins = make_insertion(kind, rng, pe, pcls, classes)
            if ins is None or ins.tag in (declared_tags(pcls) | RENAMED):
                continue
            # positions are taken in the CURRENT (already modified) element; never inside an inserted subtree
            target.insert(rng.randint(0, len(target)), ins)
            used.append(kind)
            # paths of later picks may shift when inserting into the same parent before them; re-derive aggregates
            aggs2 = [(p, e, c) for (p, e, c) in aggregates_of(mod, classes) if not any(x.tag.startswith(("ZZ", "INTU.", "CHASE.", "SCHWAB.", "XAGG")) for x in ancestors(mod, p))]
            aggs = aggs2 or aggs
        if not used:
            continue
        case = {"cls": name, "seedstr": seedstr, "kinds": used, "level": "multi", "round": r}
        check_etree(ctx, mod, s0, "several" if len(used) > 1 else used[0], "multi", case)
        for form, data in renderings(mod, rng):
            if form not in base_text:
                continue
            ctx.ev()
            ctx.count("text_insertions")
            c2 = dict(case, level="text", form=form)
            try:
                m1, nw = convert_text(data)
            except Exception as e:
                ctx.violation(f"text/{form}/raises-{type(e).__name__}", f"{name}: document with insertions {used} rejected: {e!r}", c2)
                continue
            d = modelwalk.diff(base_text[form], modelwalk.snap(m1, exact=True))
            if d:
                ctx.violation(f"text/{form}/model-differs", f"{name} + {used}: {d}", c2)
        aggs = aggregates_of(base, classes)
    return n_etree


def ancestors(root, path):
    out, e = [root], root
    for i in path:
        e = e[i]
        out.append(e)
    return out


def check_etree(ctx, mod, s0, kind, pc, case):
    ctx.ev()
    ctx.count("etree_insertions")
    if pc == "between-list-members":
        ctx.count("between_list_members")
    try:
        m1, nw = convert_etree(mod)
    except Exception as e:
        ctx.violation(f"etree/{kind}/{pc}/raises-{type(e).__name__}", f"{case['cls']}: insertion {kind} at {case.get('parent')}[{case.get('pos')}] rejected: {e!r}", case)
        return
    ctx.count("warnings_seen", nw)
    d = modelwalk.diff(s0, modelwalk.snap(m1, exact=True))
    if d:
        ctx.violation(f"etree/{kind}/{pc}/model-differs", f"{case['cls']}: insertion {kind} at {case.get('parent')}[{case.get('pos')}] changed the model: {d}", case)


def run_shard(ctx):
    classes = ref_decl.all_classes()
    thorough = ctx.tier == "thorough"
    per = 2 if not thorough else 6
    for ci, (name, cls) in enumerate(classes.items()):
        if ci % ctx.nshards != ctx.shard:
            continue
        if ctx.time_left() < 15:
            ctx.inconclusive_because(f"time budget exhausted before class {name}")
            break
        ctx.count("classes")
        for p in range(per):
            seedstr = f"C07/{ctx.seed}/{name}/{p}"
            one_document(ctx, name, cls, seedstr, classes, every_position=thorough)
        if ci % 60 == 0:
            ctx.sample({"cls": name, "seedstr": seedstr, "kinds": KINDS})


def replay(ctx, case):
    classes = ref_decl.all_classes()
    one_document(ctx, case["cls"], classes[case["cls"]], case["seedstr"], classes, every_position=True)
