"""C10 - element type converters are mutually inverse, canonical, strict at limits.

Monitor: every convert()/unconvert() call of a parameter sweep over all element
types is judged by the laws below, values compared with ref_types.
"""
import datetime
import decimal
import warnings

from vf.gen import values
from vf.oracles import ref_types as R
from vf.oracles.modelwalk import leaf

PROP = "C10"
LEVEL = "exploration"
TECHNIQUE = "law-checking runtime monitor on every Types.*.convert/unconvert call of a parameter sweep (inverse, canonical fixed point, None/required, reject texts, reject wrong Python types, limits at n and n+1), values cross-checked with an independent reference"
RULE = ("parameter sweep: required in {F,T} x String/NagString length None,1..40 x Integer length None,1..12 x Decimal scale None,0..8 x "
        "OneOf token sets (str and int members) x DateTime x Time x ListElement wrappers; per parameterisation: domain values incl. every "
        "boundary (len==limit, limit+1, 10^n-1, 10^n, one quantum, half a quantum), accepted texts in all lexical forms, MUST-REJECT texts, "
        "wrong Python types, None. A case = (type, params, law, argument); distinct by fingerprint")
ASSUMPTIONS = ["ref_types.py lexical rules (self-tested)",
               "strings cross the wire XML-escaped: law (i) is convert(escape(unconvert(v))) == v with an independent 3-character escaper",
               "UNSPECIFIED, not judged: bool where an integer is expected, int('1_2') / ' 12' / full-width digits, negative numbers vs digit limits, exponent notation on read"]
LEVEL_TEXT = ("Exploration by parameter sweep with all boundaries: each converter is a handful of branches; every parameterisation is exercised "
              "at, below and above each declared limit with each lexical form, so each branch is reached in both directions.")
LEVEL_NOTE = "Trusts ref_types.py and CPython's decimal/datetime."
DESIGN_REF = "DESIGN.md §3 C10"
MIN_COUNTERS = {"quick": {"law_inverse": 30000, "law_canonical": 50000, "law_reject_text": 5000, "law_reject_type": 1500, "law_none": 400, "law_nag": 100},
                "thorough": {"law_inverse": 300000, "law_canonical": 500000, "law_reject_text": 50000, "law_reject_type": 1500, "law_none": 400, "law_nag": 100}}

D = decimal.Decimal


def shards(tier):
    return 16


def timeout(tier):
    return 900 if tier == "quick" else 5400


def esc(s):
    return s.replace("&", "&amp;").replace("<", "&lt;").replace(">", "&gt;")


def same(a, b):
    return type(a) is type(b) and leaf(a, exact=True) == leaf(b, exact=True)


class Mon:
    def __init__(self, ctx, T):
        self.ctx, self.T = ctx, T

    def call(self, conv, op, arg):
        """-> ('ok', value) | ('exc', exception)"""
        with warnings.catch_warnings(record=True) as w:
            warnings.simplefilter("always")
            try:
                r = getattr(conv, op)(arg)
                return "ok", r, w
            except Exception as e:
                return "exc", e, w

    def viol(self, key, msg, spec, law, arg):
        self.ctx.violation(key, msg, {"spec": spec, "law": law, "arg": repr(arg)})

    # law (i): write then read returns the value
    def inverse(self, conv, spec, v, wire=lambda s: s):
        ctx = self.ctx
        ctx.ev()
        ctx.count("law_inverse")
        st, t, _ = self.call(conv, "unconvert", v)
        if st == "exc":
            self.viol(f"{spec[0]}/domain-value-refused-on-write", f"{spec}.unconvert({v!r}) raised {t!r}", spec, "inverse", v)
            return None
        if not isinstance(t, str):
            self.viol(f"{spec[0]}/unconvert-not-text", f"{spec}.unconvert({v!r}) -> {t!r}", spec, "inverse", v)
            return None
        st, back, _ = self.call(conv, "convert", wire(t))
        if st == "exc" or not same(back, v):
            self.viol(f"{spec[0]}/inverse-broken", f"{spec}: {v!r} -> {t!r} -> {back!r}", spec, "inverse", v)
        return t

    # law (ii): accepted text -> canonical text, fixed point
    def canonical(self, conv, spec, text, want=None, wire=lambda s: s, key_hint=None):
        ctx = self.ctx
        ctx.ev()
        ctx.count("law_canonical")
        st, v, _ = self.call(conv, "convert", text)
        if st == "exc":
            self.viol(key_hint or f"{spec[0]}/valid-text-rejected", f"{spec}.convert({text!r}) raised {v!r}", spec, "canonical", text)
            return
        if want is not None and not same(v, want):
            self.viol(key_hint or f"{spec[0]}/wrong-value-read", f"{spec}.convert({text!r}) -> {v!r}, type rules say {want!r}", spec, "canonical", text)
            return
        st, c, _ = self.call(conv, "unconvert", v)
        if st == "exc" or not isinstance(c, str):
            self.viol(f"{spec[0]}/read-value-not-writable", f"{spec}: convert({text!r}) = {v!r} but unconvert -> {c!r}", spec, "canonical", text)
            return
        c = wire(c)
        st, v2, _ = self.call(conv, "convert", c)
        if st == "exc" or not same(v2, v):
            self.viol(f"{spec[0]}/canonical-reads-differently", f"{spec}: {text!r} -> {v!r} -> {c!r} -> {v2!r}", spec, "canonical", text)
            return
        st, c2, _ = self.call(conv, "unconvert", v2)
        if st == "exc" or wire(c2) != c:
            self.viol(f"{spec[0]}/canonical-not-fixed-point", f"{spec}: {c!r} -> {v2!r} -> {c2!r}", spec, "canonical", text)

    def reject_text(self, conv, spec, text, why):
        ctx = self.ctx
        ctx.ev()
        ctx.count("law_reject_text")
        st, v, _ = self.call(conv, "convert", text)
        if st == "ok":
            self.viol(f"{spec[0]}/{why}", f"{spec}.convert({text!r}) -> {v!r}; must be refused ({why})", spec, "reject_text", text)

    def reject_write(self, conv, spec, v, why):
        ctx = self.ctx
        ctx.ev()
        ctx.count("law_reject_type")
        st, t, _ = self.call(conv, "unconvert", v)
        if st == "ok":
            self.viol(f"{spec[0]}/{why}", f"{spec}.unconvert({v!r}) -> {t!r}; must be refused ({why})", spec, "reject_write", v)

    def none_law(self, conv, spec, required):
        ctx = self.ctx
        for op in ("convert", "unconvert"):
            ctx.ev()
            ctx.count("law_none")
            st, r, _ = self.call(conv, op, None)
            if required and st == "ok":
                self.viol(f"{spec[0]}/none-accepted-when-required", f"{spec}.{op}(None) -> {r!r}", spec, "none", None)
            if not required and (st == "exc" or r is not None):
                self.viol(f"{spec[0]}/none-not-passed-through", f"{spec}.{op}(None) -> {r!r}", spec, "none", None)
        # "no text" is no value either: for every type but the strings, an empty or blank text is refused where a value is required,
        # and is refused or read as None where it is not (never read as some value)
        if spec[0].split(":")[-1] not in ("String", "NagString") and not (spec[0] == "ListElement" and spec[1][0] in ("String", "NagString")):
            for t in ("", " ", "  \t", "\n"):
                ctx.ev()
                ctx.count("law_blank_text")
                st, r, _ = self.call(conv, "convert", t)
                if st == "ok" and (required or r is not None):
                    self.viol(f"{spec[0]}/blank-text-read-as-{'nothing-though-required' if r is None else 'a-value'}", f"{spec}.convert({t!r}) -> {r!r}", spec, "blank", t)


def build(T, spec):
    """spec = (typename, params..., required) -> converter instance"""
    name = spec[0]
    req = spec[-1]
    if name in ("String", "NagString"):
        return getattr(T, name)(spec[1], required=req) if spec[1] is not None else getattr(T, name)(required=req)
    if name == "Integer":
        return T.Integer(spec[1], required=req) if spec[1] is not None else T.Integer(required=req)
    if name == "Decimal":
        return T.Decimal(spec[1], required=req) if spec[1] is not None else T.Decimal(required=req)
    if name == "Bool":
        return T.Bool(required=req)
    if name == "OneOf":
        return T.OneOf(*spec[1], required=req)
    if name == "DateTime":
        return T.DateTime(required=req)
    if name == "Time":
        return T.Time(required=req)
    if name == "ListElement":
        return T.ListElement(build(T, spec[1]))
    raise ValueError(spec)


def mutated(rng, text):
    chars = "aXz$_ e.,+-:;/"
    i = rng.randint(0, len(text))
    r = rng.random()
    if r < 0.5:
        return text[:i] + rng.choice(chars) + text[i:]
    if r < 0.8 and text:
        i = min(i, len(text) - 1)
        return text[:i] + rng.choice(chars) + text[i + 1:]
    return text + rng.choice(chars) + rng.choice(chars)


def do_string(m, rng, spec, conv, n):
    name, length, req = spec
    strict = "Nag" not in name
    cap = length
    for _ in range(n):
        v = values.gen_str(rng, cap)
        m.ctx.distinct((spec, "v", v))
        m.inverse(conv, spec, v, wire=esc)
        # texts with entities in every spelling
        t = "".join(rng.choice(["a", "&amp;", "&lt;", "&gt;", "&nbsp;", "&apos;", "&quot;", "é", " ", "Z", "&amp;amp;", "&amp;lt;"]) for _ in range(rng.randint(1, 6))).strip() or "q"
        want = R.decode_chardata(t)
        if cap is None or len(want) <= cap:
            m.ctx.distinct((spec, "t", t))
            m.canonical(conv, spec, t, want=want if want.strip() == want and want else None, wire=esc)
    # look-alikes of the entities OFX does NOT have (HTML's, numeric references, the semicolon left out) and a real no-break space:
    # all of it is plain character data
    for t in ("R&D &copy 2020", "if a &lt b", "&#167;1", "x &euro;5", "AT&T", "a\u00a0b", "&copy;", "&#x26;", "&Amp;", "&ampx;"):
        if cap is None or len(t) <= cap:
            m.ctx.count("foreign_entity_lookalikes")
            m.canonical(conv, spec, t, want=R.decode_chardata(t))
            m.inverse(conv, spec, t, wire=esc)
    if cap is not None:
        at = "x" * cap
        over = "y" * (cap + 1)
        m.inverse(conv, spec, at, wire=esc)
        m.canonical(conv, spec, at, want=at)
        ent_at = "&amp;" * cap  # decodes to exactly cap characters
        m.canonical(conv, spec, ent_at, want="&" * cap, wire=esc)
        # over the limit only by what a careless count leaves out: blanks at the end, an escaped blank, blanks in front
        padded = ["x" * cap + " ", "x" * cap + "&nbsp;", "x" + " " * cap, " " + "x" * cap, "x" * cap + "\t", "x" * (cap - 1) + "  " if cap > 1 else "x "]
        if strict:
            m.reject_text(conv, spec, over, "over-length-accepted-on-read")
            m.reject_text(conv, spec, "&lt;" * (cap + 1), "over-length-accepted-on-read")
            m.reject_write(conv, spec, over, "over-length-accepted-on-write")
            for t in padded:
                m.ctx.count("over_length_by_blanks")
                m.reject_text(conv, spec, t, "over-length-accepted-on-read")
                if "&nbsp;" not in t:
                    m.reject_write(conv, spec, t, "over-length-accepted-on-write")
        else:
            for op, arg in [("convert", over), ("unconvert", over)] + [("convert", t) for t in padded if "&nbsp;" not in t] + [("unconvert", t) for t in padded if "&nbsp;" not in t]:
                over = arg
                m.ctx.ev()
                m.ctx.count("law_nag")
                st, r, w = m.call(conv, op, arg)
                if st == "exc" or r != over:
                    m.viol("NagString/over-length-not-kept-whole", f"{spec}.{op}({arg!r}) -> {r!r}", spec, "nag", arg)
                elif not any(issubclass(x.category, UserWarning) for x in w):
                    m.viol("NagString/over-length-no-warning", f"{spec}.{op}({arg!r}) emitted no warning", spec, "nag", arg)
    for bad in (5, 5.0, b"x", ["x"], D(1), True, datetime.date(2020, 1, 1)):
        m.reject_write(conv, spec, bad, "wrong-python-type-accepted-on-write")


def do_integer(m, rng, spec, conv, n):
    _, length, req = spec
    hi = 10**length - 1 if length is not None else 10**15
    vals = [0, 1, hi, hi // 2, rng.randint(0, hi)] + [rng.randint(0, hi) for _ in range(n)]
    if length is not None:
        vals += [-hi, -(10 ** (length - 1)), -rng.randint(0, hi), -1]  # as many digits as allowed, with a sign in front
    if length is None:
        # no limit declared: exact at any size (2**53 + 1 is the first integer a float cannot hold)
        vals += [-1, -rng.randint(1, 10**9), 2**53 + 1, -(2**53 + 1), 2**64 + 1, 10**22 + 1, rng.randint(10**16, 10**40) | 1]
    for v in vals:
        m.ctx.distinct((spec, v))
        m.inverse(conv, spec, v)
        for t in {str(v), "+" + str(v) if v >= 0 else str(v), "0" + str(v) if v >= 0 else str(v), "000" + str(v) if v >= 0 else str(v)}:
            m.canonical(conv, spec, t, want=v)
    if length is not None:
        m.reject_text(conv, spec, str(10**length), "over-limit-accepted-on-read")
        m.reject_text(conv, spec, str(10**length + rng.randint(0, 10**length)), "over-limit-accepted-on-read")
        m.reject_write(conv, spec, 10**length, "over-limit-accepted-on-write")
        m.reject_write(conv, spec, 10**length * 7 + 3, "over-limit-accepted-on-write")
        # the limit is on digits, whatever the sign
        m.reject_text(conv, spec, str(-(10**length)), "over-limit-accepted-on-read")
        m.reject_text(conv, spec, "-" + str(10**length + rng.randint(0, 10**length)), "over-limit-accepted-on-read")
        m.reject_write(conv, spec, -(10**length), "over-limit-accepted-on-write")
        m.reject_write(conv, spec, -(10**length * 7 + 3), "over-limit-accepted-on-write")
    for _ in range(n):
        bad = mutated(rng, str(rng.randint(0, hi)))
        try:
            R.parse_int(bad)
        except R.Reject:
            m.ctx.distinct((spec, "bad", bad))
            m.reject_text(conv, spec, bad, "non-integer-text-accepted")
        except R.Unspecified:
            m.ctx.count("unspecified_skipped")
    for bad in ("12.0", "1e3", "abc", "1 2", "--1", "0x10", "1,000", "12a", "twelve", "."):
        m.reject_text(conv, spec, bad, "non-integer-text-accepted")
    for bad in ("5", 5.0, D(5), None.__class__, b"5", [5]):
        m.reject_write(conv, spec, bad, "wrong-python-type-accepted-on-write")


BIG = decimal.Context(prec=200)


def do_decimal(m, rng, spec, conv, n):
    _, scale, req = spec
    q = D(1).scaleb(-scale) if scale is not None else None
    vals = []
    for _ in range(n):
        vals.append(values.gen_decimal(rng, q))
    if q is not None:
        vals += [q, -q, D(0).quantize(q), (D(10) ** 12).quantize(q), (q * 999).quantize(q),
                 # more digits than the default arithmetic context carries (28): fixing the scale must not need them all at once
                 (D(10) ** 30 + 7).quantize(q, context=BIG), (-(D(10) ** 34) - 1).quantize(q, context=BIG)]
    else:
        vals += [D("0"), D("-0.0"), D("1.50"), D("100"), D("0.000001"), D("123456789012.123456"),
                 # more significant digits than the default arithmetic context carries (28): reading must not round
                 D("1234567890123456789012345678901.25"), D("-0.1234567890123456789012345678901234"), D("99999999999999999999999999999999999")]
    for v in vals:
        m.ctx.distinct((spec, str(v)))
        t = m.inverse(conv, spec, v)
        if t is not None and not R.decimal_lexical_ok(t):
            m.viol("Decimal/written-not-plain-notation", f"{spec}.unconvert({v!r}) -> {t!r}", spec, "inverse", v)
    # texts in every lexical form
    for _ in range(n):
        places = rng.randint(0, 9)
        digits = rng.randint(0, 10**rng.randint(1, 14))
        base = D(digits).scaleb(-places)
        s = format(base, "f")
        forms = {s, "+" + s, "-" + s, s.replace(".", ","), s + ("0" if "." in s else ".0"), s.lstrip("0") or "0"}
        if "." in s and s.split(".")[0] == "0":
            forms.add(s[1:])  # no integer part
        for t in forms:
            if t in ("", ".", ","):
                continue
            try:
                exact = R.parse_decimal(t)
            except (R.Reject, R.Unspecified):
                continue
            want = exact.quantize(q, context=BIG) if q is not None else exact
            m.ctx.distinct((spec, t))
            m.canonical(conv, spec, t, want=want, key_hint=("decimal/scale0-quantum" if scale == 0 else None))
    for t, want in (("-0.00", D("-0.00")), ("1234567890123456789012345678901234.5", D("1234567890123456789012345678901234.5")), ("-0", D("-0"))):
        if q is None:
            m.canonical(conv, spec, t, want=want)
    if q is not None:
        # one quantum / half a quantum
        half = (q / 2)
        m.canonical(conv, spec, format(q, "f"), want=q, key_hint=("decimal/scale0-quantum" if scale == 0 else None))
        m.canonical(conv, spec, format(half, "f"), want=half.quantize(q))
        m.reject_write(conv, spec, half, "wrong-quantum-accepted-on-write")
        m.reject_write(conv, spec, q.scaleb(-1), "wrong-quantum-accepted-on-write")
        # values that are multiples of the quantum but carry another exponent: refusing them is fine; when one is taken,
        # its text may not have more places than the declared scale and must read back to the same number
        for v in (D(0).scaleb(-scale - 8), (q * rng.randint(1, 999)).quantize(q.scaleb(-1)), (q * rng.randint(1, 999)).quantize(q.scaleb(-3)),
                  D(rng.randint(1, 99)), D(rng.randint(1, 9)).scaleb(2), (D(rng.randint(1, 99)) / 2).quantize(D("0.1"))):
            m.ctx.ev()
            m.ctx.count("law_scale_write")
            st, t, _ = m.call(conv, "unconvert", v)
            if st == "exc":
                m.ctx.count("other_exponent_refused")
                continue
            places = len(t.split(".")[1]) if isinstance(t, str) and "." in t else 0
            if not isinstance(t, str) or not R.decimal_lexical_ok(t) or places > scale:
                m.viol("Decimal/written-with-more-places-than-scale", f"{spec}.unconvert({v!r}) -> {t!r} ({places} places, scale {scale})", spec, "scale_write", v)
                continue
            st, back, _ = m.call(conv, "convert", t)
            if st == "exc" or back != v:
                m.viol("Decimal/other-exponent-written-then-read-differs", f"{spec}: {v!r} -> {t!r} -> {back!r}", spec, "scale_write", v)
    for bad in ("NaN", "Infinity", "-Infinity", "sNaN", "inf", "nan"):
        _rej(m, conv, spec, bad, "decimal/non-finite-accepted")
    for _ in range(n):
        bad = mutated(rng, format(D(rng.randint(0, 10**8)).scaleb(-rng.randint(0, 4)), "f"))
        try:
            R.parse_decimal(bad)
        except R.Reject:
            m.ctx.distinct((spec, "bad", bad))
            m.reject_text(conv, spec, bad, "non-decimal-text-accepted")
        except R.Unspecified:
            m.ctx.count("unspecified_skipped")
    for bad in ("1.2.3", "--1", "abc", "1,2,3", "1.2,3", "$5", "5%", "1 000", "+-1", "."):
        m.reject_text(conv, spec, bad, "non-decimal-text-accepted")
    for bad in (D("NaN"), D("Infinity"), D("-Infinity"), D("sNaN")):
        _rejw(m, conv, spec, bad, "decimal/non-finite-accepted")
    for bad in (1.5, 5, "1.5", True, b"1"):
        m.reject_write(conv, spec, bad, "wrong-python-type-accepted-on-write")


def _rej(m, conv, spec, text, key):
    m.ctx.ev()
    m.ctx.count("law_reject_text")
    st, v, _ = m.call(conv, "convert", text)
    if st == "ok":
        m.ctx.violation(key, f"{spec}.convert({text!r}) -> {v!r}; must be refused", {"spec": spec, "law": "reject_text", "arg": repr(text)})


def _rejw(m, conv, spec, v, key):
    m.ctx.ev()
    m.ctx.count("law_reject_type")
    st, t, _ = m.call(conv, "unconvert", v)
    if st == "ok":
        m.ctx.violation(key, f"{spec}.unconvert({v!r}) -> {t!r}; must be refused", {"spec": spec, "law": "reject_write", "arg": repr(v)})
    st, t, _ = m.call(conv, "convert", v)
    if st == "ok":
        m.ctx.violation(key, f"{spec}.convert({v!r}) -> {t!r}; must be refused", {"spec": spec, "law": "reject_value", "arg": repr(v)})


def do_bool(m, rng, spec, conv, n):
    for v, t in ((True, "Y"), (False, "N")):
        m.inverse(conv, spec, v)
        m.canonical(conv, spec, t, want=v)
        m.ctx.distinct((spec, t))
    for bad in ("y", "n", "Yes", "TRUE", "1", "0", " Y", "YN", "T"):
        m.reject_text(conv, spec, bad, "non-YN-text-accepted")
    for bad in ("Y", "N", 1, 0, "True", 1.0):
        m.reject_write(conv, spec, bad, "wrong-python-type-accepted-on-write")


def do_oneof(m, rng, spec, conv, n):
    _, valid, req = spec
    if all(isinstance(x, str) for x in valid):
        for tok in valid:
            m.inverse(conv, spec, tok)
            m.canonical(conv, spec, tok, want=tok)
            m.ctx.distinct((spec, tok))
            for bad in (tok.lower() if tok.lower() != tok else tok + "x", tok + "X", "X" + tok, tok[:-1] if len(tok) > 1 and tok[:-1] not in valid else tok + "Q", " " + tok):
                if bad not in valid:
                    m.reject_text(conv, spec, bad, "foreign-token-accepted-on-read")
                    m.reject_write(conv, spec, bad, "foreign-token-accepted-on-write")
    else:
        for tok in valid:
            m.ctx.ev()
            m.ctx.count("law_inverse")
            st, r, _ = m.call(conv, "convert", tok)
            if st == "exc" or r != tok:
                m.viol("OneOf/member-rejected", f"{spec}.convert({tok!r}) -> {r!r}", spec, "inverse", tok)
        for bad in (max(valid) + 1, -1, 0 if 0 not in valid else 7):
            m.reject_write(conv, spec, bad, "foreign-token-accepted-on-write")
            m.ctx.ev()
            st, r, _ = m.call(conv, "convert", bad)
            if st == "ok":
                m.viol("OneOf/foreign-token-accepted-on-read", f"{spec}.convert({bad!r}) -> {r!r}", spec, "reject", bad)


def do_datetime(m, rng, spec, conv, n):
    is_time = spec[0].split(":")[-1] == "Time"
    for _ in range(n):
        v = values.gen_time(rng) if is_time else values.gen_datetime(rng)
        name = v.tzname()
        m.ctx.distinct((spec, repr(v)))
        # inverse within half a millisecond (C09 decides the instant; here: type + aware + close)
        m.ctx.ev()
        m.ctx.count("law_inverse")
        st, t, _ = m.call(conv, "unconvert", v)
        if st == "exc" or not isinstance(t, str):
            m.viol(f"{spec[0]}/domain-value-refused-on-write", f"{spec}.unconvert({v!r}) -> {t!r}", spec, "inverse", v)
            continue
        st, back, _ = m.call(conv, "convert", t)
        la, lb = leaf(v), (leaf(back) if st == "ok" else None)
        if st == "exc" or la != lb:
            # ms rounding ties may go either way
            if not (st == "ok" and lb and la[0] == lb[0] and abs(la[1] - lb[1]) <= 1 and (leaf(v, True)[1] % 1000) in (500,)):
                m.viol(f"{spec[0]}/inverse-broken", f"{spec}: {v!r} -> {t!r} -> {back!r}", spec, "inverse", v)
                continue
        m.canonical(conv, spec, t)
    texts = ["120000", "235959.999", "000000.000[-5:EST]"] if is_time else ["20200229", "20200229120000", "20200229120000.123", "20200229120000.123[-5:EST]", "20200229120000[+5.30]"]
    for t in texts:
        m.canonical(conv, spec, t)
    for bad in (["1200", "250000", "126000", "12000a", "noon"] if is_time else ["2020", "20201301", "20200230", "20200101240000", "2020-01-01", "yesterday", "20200101T120000"]):
        m.reject_text(conv, spec, bad, "non-notation-text-accepted")
    # the bracketed offset: no hours at all, hours that are no signed number, hours / minutes beyond the clock
    stem = "120000.000" if is_time else "20200229120000.000"
    for off in ("[]", "[:EST]", "[.30]", "[.30:EST]", "[5-3:EST]", "[+-:PST]", "[--5]", "[5+]", "[+15]", "[-13]", "[99]", "[+5.60]", "[+5.7]", "[+5.075]", "[ +5]", "[+5"):
        m.ctx.count("offset_field_texts")
        m.reject_text(conv, spec, stem + off, "non-notation-text-accepted")
    # texts of the OTHER of the two notations, right after a converter of that other type has read them (same process, shared state)
    other = m.T.DateTime() if is_time else m.T.Time()
    for bad in (["20111117", "20200229120000", "20200229120000.123[-5:EST]", "19991231"] if is_time else ["120000", "235959.999", "000000.000[-5:EST]", "0101"]):
        m.call(other, "convert", bad)
        m.ctx.count("cross_type_texts")
        m.reject_text(conv, spec, bad, "text-of-the-other-notation-accepted")
    naive = datetime.time(1, 2, 3) if is_time else datetime.datetime(2020, 1, 1)
    for bad in (naive, "20200101", datetime.date(2020, 1, 1), 20200101, 1.0):
        m.reject_write(conv, spec, bad, "wrong-python-type-accepted-on-write")


def run_shard(ctx):
    try:
        R.selftest()
    except AssertionError as e:
        ctx.inconclusive_because(f"ref_types self-test failed: {e}")
        return
    from ofxtools import Types as T

    m = Mon(ctx, T)
    rng = ctx.rng
    thorough = ctx.tier == "thorough"
    n = 300 if not thorough else 16000
    specs = []
    for req in (False, True):
        for L in [None] + list(range(1, 41)):
            specs.append(("String", L, req))
            specs.append(("NagString", L, req))
        for L in [None] + list(range(1, 13)):
            specs.append(("Integer", L, req))
        for S in [None] + list(range(0, 9)):
            specs.append(("Decimal", S, req))
        specs.append(("Bool", req))
        for valid in (("CALL", "PUT"), ("CHECKING", "SAVINGS", "MONEYMRKT", "CREDITLINE", "CD"), ("A",), ("UTF-8", "USASCII", "UNICODE"), (100,), (200, 201, 202, 203, 210, 211, 220)):
            specs.append(("OneOf", valid, req))
        specs.append(("DateTime", req))
        specs.append(("Time", req))
    specs += [("ListElement", ("String", 32, False)), ("ListElement", ("Integer", 4, False)), ("ListElement", ("OneOf", ("MONDAY", "TUESDAY"), False)),
              ("ListElement", ("NagString", 5, False)), ("ListElement", ("Decimal", 2, False)),
              # members that are required (None is no member), and the remaining member types
              ("ListElement", ("String", 32, True)), ("ListElement", ("Integer", 4, True)), ("ListElement", ("OneOf", ("MONDAY", "TUESDAY"), True)),
              ("ListElement", ("Decimal", None, True)), ("ListElement", ("Bool", True)), ("ListElement", ("DateTime", False)), ("ListElement", ("Time", True))]
    for i, spec in enumerate(specs):
        if i % ctx.nshards != ctx.shard:
            continue
        conv = build(T, spec)
        inner = spec[1] if spec[0] == "ListElement" else spec
        eff = (inner[0],) + tuple(inner[1:])
        label = spec if spec[0] != "ListElement" else ("ListElement:" + inner[0],) + tuple(inner[1:])
        ctx.add("parameterisations", repr(spec))
        kind = inner[0]
        if kind in ("String", "NagString"):
            do_string(m, rng, (label[0], inner[1], inner[2]), conv, n)
        elif kind == "Integer":
            do_integer(m, rng, (label[0], inner[1], inner[2]), conv, n)
        elif kind == "Decimal":
            do_decimal(m, rng, (label[0], inner[1], inner[2]), conv, n)
        elif kind == "Bool":
            do_bool(m, rng, label, conv, n)
        elif kind == "OneOf":
            do_oneof(m, rng, (label[0], inner[1], inner[2]), conv, n)
        else:
            do_datetime(m, rng, label, conv, n)
        # None: through exactly when the element (for a repeated element: its member type) is optional
        m.none_law(conv, label, inner[-1])
        if kind not in ("String", "NagString"):
            # the empty string is no value of any type but the strings
            m.reject_write(conv, label, "", "empty-string-accepted-on-write")
        if i % 25 == 0:
            ctx.sample({"parameterisation": repr(spec)})


def replay(ctx, case):
    R.selftest()
    from ofxtools import Types as T

    # replays re-run the whole parameterisation that failed (cheap and deterministic)
    spec = case["spec"]
    ctx.note(f"replaying parameterisation {spec}")
    ctx.replay_spec = spec
    run_one(ctx, T, spec)


def run_one(ctx, T, label):
    m = Mon(ctx, T)
    rng = ctx.rng
    name = label[0].replace("ListElement:", "")
    inner = (name,) + tuple(tuple(x) if isinstance(x, list) else x for x in label[1:])
    spec = inner if not label[0].startswith("ListElement:") else ("ListElement", inner)
    conv = build(T, spec)
    lab = (label[0],) + inner[1:]
    if name in ("String", "NagString"):
        do_string(m, rng, lab, conv, 40)
    elif name == "Integer":
        do_integer(m, rng, lab, conv, 40)
    elif name == "Decimal":
        do_decimal(m, rng, lab, conv, 40)
    elif name == "Bool":
        do_bool(m, rng, lab, conv, 40)
    elif name == "OneOf":
        do_oneof(m, rng, lab, conv, 40)
    else:
        do_datetime(m, rng, lab, conv, 40)
    m.none_law(conv, lab, inner[-1])
    if name not in ("String", "NagString"):
        m.reject_write(conv, lab, "", "empty-string-accepted-on-write")
