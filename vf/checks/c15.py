"""C15 - the cached FI profile is always whole, the newest, and from the right server.

Four monitors share one sequential model of the cache (newest accepted profile
per server):
 1. sequential histories  - every sequence of server behaviours (exhaustive up to
    length 4/5) x {same client object, fresh client per step}; after every step the
    observer records result/exception, the DTPROFUP the server was asked with and
    the cache file bytes;
 2. crash points          - the writing call runs in a child process that dies
    (os._exit) at every sys.monitoring LINE event of request_profile after the
    response arrived and inside every file operation (open, half a write, full
    unflushed write, before/after rename); a fresh process then inspects the cache
    and issues follow-up requests;
 3. concurrent writers    - (a) all interleavings of two writers' file steps under
    gates, cache read after every step; (b) the real ofxget._queue_scans (30
    concurrent requests on one client) with yield injection and a server that
    upgrades its profile mid-scan;
 4. right server          - pairs of clients with equal/different ORG, FID, URL.
"""
import builtins
import itertools
import json
import os
import random
import re
import shutil
import subprocess
import sys
import tempfile
import threading
import time

from vf.net import ofxserver
from vf.net.fakehttp import FakeNet, Reply, transport_error
from vf.oracles import ref_types as R

PROP = "C15"
LEVEL = "fault_enumeration"
TECHNIQUE = "history recording + offline check against a sequential cache model; crash-point enumeration (os._exit at every LINE event and inside every file operation, follow-up in a fresh process); exhaustive two-writer schedule enumeration under gates; threaded scan stress with yield injection"
RULE = ("(1) ALL sequences of server behaviours {newer, same, older, up-to-date, error status, garbage, transport error} of length <=3 + 200 sampled "
        "of length 4 (quick) / ALL of length <=4 + 4000 sampled of length 5-6 (thorough), each with one client object, with a fresh client per step and with two long-lived clients taking turns; (2) every LINE event of request_profile "
        "after the response arrived and 6 file-operation points as crash points, each followed by a fresh-process inspection + 2 requests; "
        "(3a) ALL interleavings of two writers' file steps (70 for create/write/close/rename), cache read after every step; (3b) the real "
        "ofxget._queue_scans with random delays and yield injection; (4) client pairs over equal/different ORG x FID x URL (incl. same host, "
        "different path; both ORG and FID unset). A case = one history / crash point / schedule / pair")
RULE += ' Added later: identities that differ only beyond a dozen characters or read like a missing value, sign-on responses carrying a DTPROFUP of their own, one client used by two threads for two URLs, restart semantics, TMPDIR on another file system.'
ASSUMPTIONS = ["the fake server replaces only urllib's http_open/https_open; profile bodies are hand-written templates (vf/net/ofxserver.py)",
               "a restart = a child process with its own PYTHONHASHSEED; half of the crash points run with TMPDIR on another file system (/dev/shm) than the data directory when one is available",
               "mid-write crashes are emulated at Python level (proxy writes half, flushes, os._exit); a stray *.tmp file is not the cache and is not judged",
               "under CONCURRENT requests, 'newest' is judged in real-time order only: a writer that started before a newer profile was cached may "
               "overwrite it (both requests were in flight together); whole-ness and parseability are judged unconditionally",
               "different URL => different server; different ORG or FID => different FI: neither may share a cached profile"]
LEVEL_TEXT = ("Fault enumeration: behaviours, crash points and two-writer schedules are finite and enumerated completely at the stated bounds "
              "(exhaustive: true for those parts); the scan stress reports the interleavings it actually observed.")
LEVEL_NOTE = "Crash = process death (os._exit), not power loss: no fsync semantics are examined. Only the urllib transport is reachable."
DESIGN_REF = "DESIGN.md §3 C15"
EXHAUSTIVE = {"quick": "all behaviour sequences of length <=3 (x3 client modes); all LINE-event crash points of request_profile + 6 file-op points; all 70 two-writer schedules",
              "thorough": "all behaviour sequences of length <=4 (x3 client modes); crash points x2 body sizes; all 70 schedules x 3 body-size pairs"}
MIN_COUNTERS = {"quick": {"seq_histories": 1200, "seq_steps": 4000, "crash_points": 20, "crash_followups": 20, "schedules": 70, "schedule_steps_observed": 250,
                          "scan_runs": 3, "scan_requests": 90, "wrongserver_pairs": 60, "wrongserver_url_override_pairs": 20, "override_thread_runs": 8},
                "thorough": {"seq_histories": 9000, "seq_steps": 36000, "crash_points": 40, "crash_followups": 40, "schedules": 210, "schedule_steps_observed": 750,
                             "scan_runs": 30, "scan_requests": 900, "wrongserver_pairs": 400, "wrongserver_url_override_pairs": 40, "override_thread_runs": 100}}

# FI identities, incl. free-text ORG/FID as found in the bundled FI database ("Cavion/Phoenix") and worse
IDENTS = [("ORG1", "F1"), ("Cavion/Phoenix", "125108887"), ("ORG1", "F1"), ("A B&C", "x:y*?"), (None, None), ("..", "../up"), ("ORG1", None), ("Ünï©ode", "汉")]
BEHAVIOURS = ["newer", "same", "older", "uptodate", "error", "garbage", "transport"]
URL = "https://ofx.fi-one.example/profile"
BASE_DT = 20100101


def shards(tier):
    return 16


def timeout(tier):
    return 900 if tier == "quick" else 5400


ZONES = ["[+0:UTC]", "[-5:EST]", "[+5.30:IST]", "[-11]", "", "[-3.30:NST]", "[-9.30]", "[+12.45:CHAST]"]
CLOCK = {"zone": 0, "hours": False}  # how this history's server spells its profile dates (set per history; generations stay ordered)


def dt_text(n):
    """n-th generation date: n years (or, for some histories, n hours) after 2010-01-01 00:00 in the history's zone."""
    z = ZONES[CLOCK["zone"]]
    if CLOCK["hours"]:
        return f"201006{1 + n // 24:02d}{n % 24:02d}0000.000{z}"
    return f"{2010 + n:04d}0101000000.000{z}"


def asked_date(body):
    m = re.search(rb"<DTPROFUP>([^<\r\n]+)", body or b"")
    return m.group(1).decode() if m else None


def prof_date(data):
    """The date of the PROFILE in an answer / a cache file: <DTPROFUP> inside <PROFRS> (the sign-on response may carry one, too)."""
    data = data or b""
    i = data.find(b"<PROFRS>")
    m = re.search(rb"<DTPROFUP>([^<\r\n]+)", data[i:] if i >= 0 else data)
    return R.parse_datetime(m.group(1).decode()) if m else None


def cache_dir():
    from ofxtools import config
    return config.DATADIR / "fiprofiles"


def cache_files():
    d = cache_dir()
    if not d.exists():
        return {}
    return {p.name: p.read_bytes() for p in sorted(d.iterdir()) if p.name.endswith(".profrs")}


def clear_cache():
    shutil.rmtree(cache_dir(), ignore_errors=True)


# ------------------------------------------------------------------ 1. sequential histories
def run_history(ctx, net, seq, fresh, variant):
    from ofxtools.Client import OFXClient

    clear_cache()
    CLOCK.update(zone=(variant + len(seq) * 2 + (1 if fresh else 0)) % len(ZONES), hours=(variant + len(seq)) % 2 == 1)
    ctx.add("profile_date_spellings", f"{ZONES[CLOCK['zone']] or 'no zone'}/{'hours' if CLOCK['hours'] else 'years'} apart")
    sent = []  # bodies of every profile this server has sent: (generation, bytes)
    state = {"gen": 0, "held": None}  # model: held = (gen, bytes) newest accepted
    step_rec = {}

    def handler(rec):
        step_rec["asked"] = asked_date(rec["body"])
        b = step_rec["behaviour"]
        held = state["held"]
        if b in ("newer", "same", "older"):
            if b == "newer" or held is None:
                state["gen"] += 2
                g = state["gen"]
            elif b == "same":
                g = held[0]
            else:
                g = held[0] - 1
            body = ofxserver.profile_ok(dt_text(g), URL + "/svc", URL, finame=f"G{g}", extra="x" * ((len(sent) * 37 + variant * 11) % 90),
                                        v1=(len(sent) + variant) % 2 == 1, pretty=(len(sent) + variant) % 3 == 0)
            # the sign-on response may carry a DTPROFUP of its own (when the FI last changed its profile): it says nothing about
            # the profile IN this answer - a server that hands out an older copy may well report a recent date there, and vice versa
            k3 = (len(sent) + variant) % 3
            if k3:
                claim = dt_text(state["gen"] + 7 if k3 == 1 else max(g - 5, 0))
                body = body.replace(b"</LANGUAGE></SONRS>", b"</LANGUAGE><DTPROFUP>" + claim.encode() + b"</DTPROFUP></SONRS>", 1)
                ctx.count("seq_answers_with_signon_dtprofup")
            sent.append((g, body))
            step_rec["sent"] = (g, body)
            return Reply(body)
        if b == "uptodate":
            return Reply(ofxserver.profile_uptodate(v1=variant % 2 == 1))
        if b == "error":
            return Reply(ofxserver.profile_error(2000 + variant))
        if b == "garbage":
            k = variant + len(sent) + len(seq)
            if k % 3 == 0:
                # tempting garbage: status 0, a NEWER date, well-formed - but not a profile by the data model
                kind = ofxserver.INVALID_KINDS[(k // 3) % len(ofxserver.INVALID_KINDS)]
                ctx.count("garbage_wellformed_but_invalid")
                return Reply(ofxserver.profile_invalid(kind, dt_text(state["gen"] + 1), URL + "/svc", URL, finame="BAD", v1=k % 2 == 1))
            return Reply(ofxserver.GARBAGE[(variant + len(sent)) % len(ofxserver.GARBAGE)])
        return Reply(exc=transport_error())

    net.handler = handler
    org, fid = IDENTS[(variant + len(seq)) % len(IDENTS)]
    client = OFXClient(URL, org=org, fid=fid)
    pair = [client, OFXClient(URL, org=org, fid=fid)]  # two long-lived clients of the same FI taking turns
    case = {"monitor": "seq", "seq": seq, "fresh": fresh, "variant": variant, "org": org, "fid": fid}
    for i, b in enumerate(seq):
        if fresh == "alternate":
            client = pair[i % 2]
        elif fresh:
            client = OFXClient(URL, org=org, fid=fid)
        step_rec.clear()
        step_rec["behaviour"] = b
        before = cache_files()
        ctx.ev()
        ctx.count("seq_steps")
        try:
            result = client.request_profile().read()
            exc = None
        except BaseException as e:
            result, exc = None, e
        after = cache_files()
        held = state["held"]
        where = f"step {i} ({b}) of {seq} fresh={fresh}"
        # the request must ask with the date of the profile then held
        want_asked = dt_text(held[0]) if held else "19900101000000.000[+0:UTC]"
        got_asked = step_rec.get("asked")
        if got_asked is None or R.parse_datetime(got_asked) != R.parse_datetime(want_asked):
            ctx.violation("seq/asked-with-wrong-date", f"{where}: PROFRQ asked DTPROFUP={got_asked}, profile then held is {want_asked}", case)
        # expected outcome per the model
        snt = step_rec.get("sent")
        if b in ("newer", "same", "older"):
            ok_expected = held is None or snt[0] >= held[0]
        elif b == "uptodate":
            ok_expected = held is not None
        else:
            ok_expected = False
        if exc is None:
            newest = max([g for g, _ in sent] + ([held[0]] if held else []), default=None)
            rd = prof_date(result)
            if not any(result == body for _, body in sent):
                ctx.violation("seq/returned-not-a-whole-profile", f"{where}: returned bytes are not one of the profiles the server sent", case)
            elif newest is not None and rd != R.parse_datetime(dt_text(newest)):
                ctx.violation("seq/returned-not-the-newest", f"{where}: returned profile dated {rd}, newest the server has sent is generation {newest}", case)
            if not ok_expected:
                ctx.count("seq_unexpected_success")  # e.g. accepting an older profile would show up as not-the-newest above
            # model update
            if snt is not None and (held is None or snt[0] >= held[0]):
                state["held"] = snt
        else:
            ctx.count("seq_failed_calls")
            if after != before:
                ctx.violation("seq/failed-call-changed-cache", f"{where}: call failed with {exc!r} but the cache changed", case)
            if ok_expected:
                ctx.violation(f"seq/valid-answer-rejected/{b}", f"{where}: failed with {exc!r}", case)
        # cache invariant
        if len(after) > 1:
            ctx.violation("seq/more-than-one-cache-file", f"{where}: cache files {sorted(after)}", case)
        for name, data in after.items():
            if not any(data == body for _, body in sent):
                ctx.violation("seq/cache-not-a-whole-profile", f"{where}: cache file {name} ({len(data)} bytes) is not one complete profile the server sent", case)
            else:
                gb = [g for g, body in sent if body == data][-1]
                for bname, bdata in before.items():
                    gprev = [g for g, body in sent if body == bdata]
                    if gprev and gb < gprev[-1]:
                        ctx.violation("seq/cache-regressed", f"{where}: cache went from generation {gprev[-1]} to {gb}", case)
        if before and not after:
            ctx.violation("seq/cache-vanished", f"{where}: cache file removed", case)


def seq_monitor(ctx, net):
    maxlen = 3 if ctx.tier == "quick" else 4
    seqs = [s for n in range(1, maxlen + 1) for s in itertools.product(BEHAVIOURS, repeat=n)]
    if ctx.tier == "quick":
        r4 = random.Random(f"C15s/{ctx.seed}")
        seqs += r4.sample(list(itertools.product(BEHAVIOURS, repeat=4)), 200)
    k = 0
    for i, seq in enumerate(seqs):
        if i % ctx.nshards != ctx.shard:
            continue
        for fresh in (False, True, "alternate"):
            if fresh == "alternate" and len(seq) < 2:
                continue
            run_history(ctx, net, list(seq), fresh, variant=i % 5)
            ctx.count("seq_histories")
            ctx.distinct(("seq", seq, fresh))
        k += 1
        if k % 400 == 1:
            ctx.sample({"monitor": "sequential history", "behaviours": list(seq), "clients": ["same object", "fresh per step"]})
    if ctx.tier == "thorough":
        rng = ctx.rng
        for j in range(4000 // ctx.nshards):
            seq = [rng.choice(BEHAVIOURS) for _ in range(rng.choice([5, 6]))]
            run_history(ctx, net, seq, rng.choice([False, True, "alternate"]), variant=j % 5)
            ctx.count("seq_histories")
            ctx.distinct(("seq6", tuple(seq), j))
    CLOCK.update(zone=0, hours=False)


# ------------------------------------------------------------------ 2. crash points
_CHILD_NO = [0]


def child(mode, args, env, timeout=60):
    # every child is a real restart: its own string-hash seed (as any two runs of a program have)
    _CHILD_NO[0] += 1
    env = dict(env, PYTHONHASHSEED=str((int(os.environ.get("PYTHONHASHSEED", "0") or 0) + 7919 * _CHILD_NO[0] + 1) % 2**32))
    cmd = [sys.executable, "-m", "vf.checks.c15_child", mode, json.dumps(args)]
    p = subprocess.run(cmd, env=env, timeout=timeout, stdout=subprocess.PIPE, stderr=subprocess.PIPE)
    return p.returncode, p.stdout.decode("utf_8", "replace"), p.stderr.decode("utf_8", "replace")[-400:]


def crash_monitor(ctx):
    """Shard s takes crash points k = s, s+16, ... and one of the file-operation points."""
    IO_POINTS = ["open-after", "write-half", "write-full-noclose", "close-before-replace", "replace-before", "replace-after"]
    sizes = [""] if ctx.tier == "quick" else ["", "y" * 70000]
    shm_root = None
    try:
        if os.path.isdir("/dev/shm") and os.stat("/dev/shm").st_dev != os.stat(ctx.scratch).st_dev:
            shm_root = tempfile.mkdtemp(prefix="vf-c15-", dir="/dev/shm")
    except OSError:
        shm_root = None
    try:
        _crash_points(ctx, sizes, IO_POINTS, shm_root)
    finally:
        if shm_root:
            shutil.rmtree(shm_root, ignore_errors=True)


def _crash_points(ctx, sizes, IO_POINTS, shm_root):
    for extra in sizes:
        # "tmp": "other" = the system's temporary directory lies on another file system than the data directory
        points = [("crash-line", {"k": k, "tmp": "other" if (k // ctx.nshards) % 2 else "same"}) for k in range(1 + ctx.shard, 60, ctx.nshards)]
        for j in range(ctx.shard, 2 * len(IO_POINTS), ctx.nshards):
            points.append(("crash-io", {"point": IO_POINTS[j % len(IO_POINTS)], "tmp": "other" if j >= len(IO_POINTS) else "same"}))
        for mode, pargs in points:
            home = tempfile.mkdtemp(prefix="c15crash-", dir=ctx.scratch)
            env = dict(os.environ, HOME=home, XDG_DATA_HOME=home + "/data", XDG_CONFIG_HOME=home + "/config", XDG_CACHE_HOME=home + "/cache")
            if pargs.get("tmp") == "other" and shm_root is not None:
                # the system's temporary directory on ANOTHER file system than the data directory (a rename across them is a copy)
                env["TMPDIR"] = tempfile.mkdtemp(prefix="t", dir=shm_root)
                ctx.count("crash_runs_with_tmpdir_on_other_filesystem")
            # pre-populate the cache with an OLD profile through the real code path
            old_dt, new_dt, later_dt = dt_text(1), dt_text(5), dt_text(9)
            rc, out, err = child("followup", {"server_dt": old_dt, "later_dt": old_dt, "extra": ""}, env)
            if "FOLLOWUP" not in out:
                ctx.inconclusive_because(f"crash setup child failed rc={rc}: {err}")
                return
            rc, out, err = child(mode, dict(pargs, dt=new_dt, extra=extra), env)
            if "LINES" in out or "NOCRASH" in out:
                if mode == "crash-line":
                    ctx.add("request_profile_line_events_after_response", out.strip().split()[-1])
                    shutil.rmtree(home, ignore_errors=True)
                    continue  # k beyond the last line event: not a crash point
                ctx.count("io_point_not_reached_" + pargs["point"])
                shutil.rmtree(home, ignore_errors=True)
                continue
            if rc != 137:
                ctx.inconclusive_because(f"crash child {mode} {pargs} ended rc={rc} without crashing: {out[-200:]} {err}")
                continue
            ctx.ev()
            ctx.count("crash_points")
            where = f"{mode} {pargs} ({out.strip()[-40:]})"
            ctx.add("crash_points_reached", f"{mode}:{pargs.get('k', pargs.get('point'))}:{out.strip().split()[-1]}")
            case = {"monitor": "crash", "mode": mode, "args": pargs, "extra_len": len(extra)}
            rc2, out2, err2 = child("followup", {"server_dt": new_dt, "later_dt": later_dt, "extra": extra}, env)
            if "FOLLOWUP " not in out2:
                ctx.violation("crash/followup-process-died", f"after {where}: fresh process could not even run: rc={rc2} {err2}", case)
                shutil.rmtree(home, ignore_errors=True)
                continue
            ctx.count("crash_followups")
            rep = json.loads(out2.split("FOLLOWUP ", 1)[1])
            old_body = ofxserver.profile_ok(old_dt, "https://ofx.crash.example/prof", "https://ofx.crash.example/prof", finame="LATER").decode("latin_1")
            new_body = ofxserver.profile_ok(new_dt, "https://ofx.crash.example/prof", "https://ofx.crash.example/prof", finame="NEW", extra=extra).decode("latin_1")
            for name, data in rep["cache"].items():
                if data not in (old_body, new_body):
                    kind = "empty" if data == "" else "truncated" if new_body.startswith(data) or old_body.startswith(data) else "mixed"
                    ctx.violation("crash/cache-left-truncated" if kind != "mixed" else "crash/cache-left-mixed",
                                  f"after {where}: cache file {name} is {kind} ({len(data)} bytes; whole profiles are {len(old_body)} / {len(new_body)})", case)
            # the follow-up process is a restart: it must find the profile its predecessor left and ask with THAT date, and it must
            # not start a second cache file next to it
            whole = [d for d in rep["cache"].values() if d in (old_body, new_body)]
            if len(rep["cache"]) == 1 and len(whole) == 1 and rep["steps"] and rep["steps"][0].get("asked"):
                held_dt = prof_date(whole[0].encode("latin_1"))
                ctx.count("restart_asked_dates_compared")
                if R.parse_datetime(rep["steps"][0]["asked"]) != held_dt:
                    ctx.violation("restart/asked-with-wrong-date", f"after {where}: the restarted client asked with {rep['steps'][0]['asked']} although the cache "
                                  f"held the profile dated {held_dt}", case)
            if len(rep.get("cache_after", {})) > 1:
                ctx.violation("restart/more-than-one-cache-file", f"after {where}: cache files {sorted(rep['cache_after'])}", case)
            for i, st in enumerate(rep["steps"]):
                if "exc" in st:
                    ctx.violation("crash/later-request-fails", f"after {where}: follow-up request {i} failed: {st['exc'][:200]}", case)
                    break
            else:
                last = rep["steps"][-1].get("result", "")
                if prof_date(last.encode("latin_1")) != R.parse_datetime(later_dt):
                    ctx.violation("crash/later-request-wrong-profile", f"after {where}: final request returned profile dated {prof_date(last.encode('latin_1'))}", case)
            ctx.distinct(("crash", mode, str(pargs), len(extra)))
            if ctx.shard == 0 and mode == "crash-line" and pargs["k"] == 1:
                ctx.sample({"monitor": "crash point", "point": where, "cache_after_crash_bytes": {k: len(v) for k, v in rep["cache"].items()},
                            "followups": [{k: (v if k != "result" else len(v)) for k, v in st.items()} for st in rep["steps"]]})
            shutil.rmtree(home, ignore_errors=True)


# ------------------------------------------------------------------ 3a. two writers, all schedules
class Gate:
    """Controller-driven gates around the file steps of the writers."""

    def __init__(self, schedule):
        self.schedule = list(schedule)
        self.cv = threading.Condition()
        self.turn = None
        self.waiting = {}
        self.done = set()
        self.log = []

    def step(self, who, name):
        with self.cv:
            self.waiting[who] = name
            self.cv.notify_all()
            while self.turn != who:
                if not self.cv.wait(timeout=20):
                    raise TimeoutError(f"gate timeout for {who} at {name}")
            self.turn = None
            del self.waiting[who]
            self.log.append((who, name))


def schedules_monitor(ctx, net):
    from ofxtools.Client import OFXClient

    cdir = None
    size_pairs = [(0, 40)] if ctx.tier == "quick" else [(0, 40), (60, 0), (0, 70000)]
    real_open, real_ntf, real_replace = builtins.open, tempfile.NamedTemporaryFile, os.replace
    writers = threading.local()
    for (xa, xb) in size_pairs:
        # discover the number of steps per writer with a dry pass, then enumerate all interleavings
        for sched_id, sched in enumerate(all_schedules_lazy()):
            if sched_id % ctx.nshards != ctx.shard:
                continue
            clear_cache()
            cdir = str(cache_dir())
            bodies = {"A": ofxserver.profile_ok(dt_text(3), URL, URL, finame="AAAA", extra="a" * xa), "B": ofxserver.profile_ok(dt_text(3), URL, URL, finame="BB", extra="b" * xb, pretty=True)}
            gate = Gate(sched)
            observed = []

            def handler(rec):
                return Reply(bodies[rec["client"]])

            net.handler = handler

            def observe(tag):
                files = cache_files()
                observed.append((tag, {k: v for k, v in files.items()}))

            class Proxy:
                def __init__(self, f, who):
                    self._f, self._who = f, who
                    self.name = getattr(f, "name", None)

                def write(self, data):
                    gate.step(self._who, "write")
                    r = self._f.write(data)
                    self._f.flush()
                    observe((self._who, "write"))
                    return r

                def __enter__(self):
                    return self

                def __exit__(self, *a):
                    gate.step(self._who, "close")
                    self._f.close()
                    observe((self._who, "close"))
                    return False

                def __getattr__(self, n):
                    return getattr(self._f, n)

            def my_open(path, mode="r", *a, **kw):
                who = getattr(writers, "who", None)
                if who and isinstance(path, (str, os.PathLike)) and "w" in mode and os.fspath(path).startswith(cdir):
                    gate.step(who, "open")
                    f = real_open(path, mode, *a, **kw)
                    observe((who, "open"))
                    return Proxy(f, who)
                return real_open(path, mode, *a, **kw)

            def my_ntf(mode="w+b", *a, **kw):
                who = getattr(writers, "who", None)
                if who and str(kw.get("dir", "")).startswith(cdir):
                    gate.step(who, "create")
                    f = real_ntf(mode, *a, **kw)
                    observe((who, "create"))
                    return Proxy(f, who)
                return real_ntf(mode, *a, **kw)

            def my_replace(src, dst, *a, **kw):
                who = getattr(writers, "who", None)
                if who and str(dst).startswith(cdir):
                    gate.step(who, "replace")
                    r = real_replace(src, dst, *a, **kw)
                    observe((who, "replace"))
                    return r
                return real_replace(src, dst, *a, **kw)

            client = OFXClient(URL, org="ORG1", fid="F1")
            results = {}

            def run(who):
                writers.who = who
                net.set_client(who)
                try:
                    results[who] = ("ok", client.request_profile().read())
                except BaseException as e:
                    results[who] = ("exc", repr(e))
                finally:
                    with gate.cv:
                        gate.done.add(who)
                        gate.cv.notify_all()

            builtins.open, tempfile.NamedTemporaryFile, os.replace = my_open, my_ntf, my_replace
            try:
                ths = {w: threading.Thread(target=run, args=(w,)) for w in "AB"}
                for t in ths.values():
                    t.start()
                # drive: follow the schedule; a writer that has finished simply yields its remaining slots
                for who in sched:
                    with gate.cv:
                        ok = gate.cv.wait_for(lambda: who in gate.waiting or who in gate.done, timeout=20)
                        if not ok:
                            raise TimeoutError("controller timeout")
                        if who in gate.done:
                            continue
                        gate.turn = who
                        gate.cv.notify_all()
                        gate.cv.wait_for(lambda: gate.turn is None, timeout=20)
                # release anything still waiting (more steps than expected)
                deadline = time.time() + 20
                while len(gate.done) < 2 and time.time() < deadline:
                    with gate.cv:
                        if gate.waiting:
                            gate.turn = sorted(gate.waiting)[0]
                            gate.cv.notify_all()
                        gate.cv.wait(timeout=0.05)
                for t in ths.values():
                    t.join(timeout=20)
            except TimeoutError as e:
                ctx.inconclusive_because(f"schedule {sched}: {e}")
            finally:
                builtins.open, tempfile.NamedTemporaryFile, os.replace = real_open, real_ntf, real_replace
            ctx.ev()
            ctx.count("schedules")
            ctx.count("schedule_steps_observed", len(observed))
            ctx.add("steps_per_writer", "/".join(n for w, n in gate.log if w == "A"))
            case = {"monitor": "schedule", "schedule": "".join(sched), "sizes": [xa, xb]}
            whole = set(bodies.values())
            for tag, files in observed:
                for name, data in files.items():
                    if data not in whole:
                        kind = "empty" if data == b"" else "partial-or-mixed"
                        ctx.violation(f"concurrent/cache-{kind}-during-write", f"schedule {''.join(sched)} after {tag}: cache {name} has {len(data)} bytes, not one whole profile", case)
                        break
            final = cache_files()
            for name, data in final.items():
                if data not in whole:
                    ctx.violation("concurrent/mixed-content", f"schedule {''.join(sched)}: final cache {name} ({len(data)} bytes) is not one whole profile", case)
            for w, (st, val) in results.items():
                if st == "exc":
                    ctx.violation("concurrent/writer-fails", f"schedule {''.join(sched)}: writer {w} failed: {val[:200]}", case)
                elif val not in whole:
                    ctx.violation("concurrent/writer-returns-mixed", f"schedule {''.join(sched)}: writer {w} returned {len(val)} bytes that are not a whole profile", case)
            # a later request must succeed
            net.set_client("A")
            net.handler = lambda rec: Reply(ofxserver.profile_uptodate())
            try:
                r = OFXClient(URL, org="ORG1", fid="F1").request_profile().read()
                if r not in whole:
                    ctx.violation("concurrent/later-request-returns-mixed", f"schedule {''.join(sched)}: later request returned non-whole profile", case)
            except BaseException as e:
                ctx.violation("concurrent/later-request-fails", f"schedule {''.join(sched)}: later request failed: {e!r}", case)
            ctx.distinct(("sched", "".join(sched), xa, xb))
            if sched_id == ctx.shard:
                ctx.sample({"monitor": "two-writer schedule", "schedule": "".join(sched), "steps_logged": gate.log, "cache_sizes_after_each_step": [[str(t), {k: len(v) for k, v in f.items()}] for t, f in observed]})


def all_schedules_lazy(steps=4):
    """All interleavings of `steps` steps of writer A and `steps` of writer B (C(8,4) = 70)."""
    for pos in itertools.combinations(range(2 * steps), steps):
        yield ["A" if i in pos else "B" for i in range(2 * steps)]


# ------------------------------------------------------------------ 3b. the real scan under stress
def scan_monitor(ctx, net):
    from ofxtools.Client import OFXClient
    from ofxtools.scripts import ofxget
    from vf.monitors.linemon import LineMon

    runs = 1 if ctx.tier == "quick" else 4
    if ctx.tier == "quick" and ctx.shard >= 4:
        return
    rng = ctx.rng
    old = sys.getswitchinterval()
    sys.setswitchinterval(1e-6)
    try:
        for r in range(runs):
            clear_cache()
            lock = threading.Lock()
            sent = []
            started = []
            finished = {}
            upgrade_at = rng.randint(5, 25)

            bad = []  # replies that are no profile (as a real server answers some of the probed versions / formats)

            def handler(rec):
                with lock:
                    n = len(sent) + len(bad)
                    if n % 5 == 3 or n % 7 == 5:
                        body = ofxserver.profile_error(2000 + n) if n % 5 == 3 else ofxserver.GARBAGE[n % len(ofxserver.GARBAGE)]
                        bad.append(body)
                        return Reply(body, delay=rng.random() * 0.01)
                    g = 2 if n < upgrade_at else 4
                    body = ofxserver.profile_ok(dt_text(g), URL, URL, finame=f"G{g}", extra="s" * (n * 13 % 200), v1=n % 2 == 0, pretty=n % 3 == 0)
                    sent.append((g, body, time.monotonic()))
                asked = asked_date(rec["body"])
                return Reply(body, delay=rng.random() * 0.01)

            net.handler = handler
            net.set_client("scan")
            client = OFXClient(URL, org="ORG1", fid="F1")
            lm = LineMon(os.environ.get("VF_REPO", "/repo"), p_yield=0.2, seed=ctx.seed + r, only_files=("Client.py", "ofxget.py"))
            with lm:
                futures = ofxget._queue_scans(client, gen_newfileuid=True, max_workers=None, timeout=5.0)
            ctx.ev()
            ctx.count("scan_runs")
            ctx.count("scan_requests", len(futures))
            ctx.count("scan_line_events", lm.events)
            ctx.count("scan_cross_thread_switches", lm.switches)
            case = {"monitor": "scan", "run": r, "upgrade_at": upgrade_at}
            whole = {body for _, body, _ in sent}
            nfail = 0
            for fut in futures:
                try:
                    data = fut.result(timeout=30).read()
                    if data not in whole:
                        ctx.violation("concurrent/scan-request-returns-mixed", f"scan run {r}: a request returned {len(data)} bytes that are not one whole profile", case)
                except BaseException as e:
                    nfail += 1
                    last_exc = e
            ctx.count("scan_bad_replies", len(bad))
            if nfail != len(bad):
                # each request that got an error / garbage reply fails, each that got a profile succeeds - whatever the other threads got
                ctx.violation("concurrent/scan-outcomes-do-not-match-replies", f"scan run {r}: {len(bad)} requests were answered with an error or garbage, "
                              f"{nfail} requests failed (of {len(futures)})", case)
            final = cache_files()
            for name, data in final.items():
                if data not in whole:
                    ctx.violation("concurrent/mixed-content", f"scan run {r}: final cache {name} ({len(data)} bytes) is not one whole profile", case)
            if not final:
                ctx.violation("concurrent/no-cache-after-scan", f"scan run {r}: no cache file after 30 successful profile requests", case)
            net.handler = lambda rec: Reply(ofxserver.profile_uptodate())
            try:
                OFXClient(URL, org="ORG1", fid="F1").request_profile().read()
            except BaseException as e:
                ctx.violation("concurrent/later-request-fails", f"scan run {r}: request after the scan failed: {e!r}", case)
            ctx.distinct(("scan", ctx.shard, r))
            if r == 0:
                ctx.sample({"monitor": "ofxget._queue_scans stress", "requests": len(futures), "line_events": lm.events, "cross_thread_switches": lm.switches,
                            "profile_generations_sent": sorted({g for g, _, _ in sent}), "final_cache_bytes": {k: len(v) for k, v in final.items()}})
    finally:
        sys.setswitchinterval(old)


def override_threads_monitor(ctx, net):
    """ONE client object used by two threads for two servers through the per-call url= override (what a scan over several URLs
    does): each server's profile ends up under that server's cache entry, whole, and a restarted client finds its own."""
    from ofxtools.Client import OFXClient
    from vf.monitors.linemon import LineMon

    if ctx.tier == "quick" and ctx.shard >= 6:
        return
    ua, ub = URL + "/A", URL + "/B"
    dates = {ua: dt_text(4), ub: dt_text(7)}
    old = sys.getswitchinterval()
    sys.setswitchinterval(1e-6)
    try:
        for r in range(2 if ctx.tier == "quick" else 8):
            clear_cache()
            asked = {}

            def handler(rec):
                u = rec["url"]
                a = asked_date(rec["body"])
                asked.setdefault(rec.get("client"), []).append((u, a))
                if a and R.parse_datetime(a) >= R.parse_datetime(dates[u]):
                    return Reply(ofxserver.profile_uptodate(), delay=0.002)
                return Reply(ofxserver.profile_ok(dates[u], u, u, finame="SRV-" + u[-1], extra="z" * (40 if u == ua else 3)), delay=0.002)

            net.handler = handler
            net.set_client("shared")
            client = OFXClient(ua, org="ORG1", fid="F1")
            errors = []

            def worker(url):
                for _ in range(6):
                    try:
                        data = client.request_profile(url=url).read()
                        if (b"SRV-" + url[-1].encode()) not in data:
                            errors.append(f"request to {url} returned a profile that is not its server's")
                    except BaseException as e:  # noqa
                        errors.append(f"request to {url} failed: {e!r}"[:200])

            lm = LineMon(os.environ.get("VF_REPO", "/repo"), p_yield=0.2, seed=ctx.seed + r, only_files=("Client.py",))
            with lm:
                ths = [threading.Thread(target=worker, args=(u,)) for u in (ua, ub)]
                for t in ths:
                    t.start()
                for t in ths:
                    t.join(timeout=120)
            ctx.ev()
            ctx.count("override_thread_runs")
            ctx.count("override_thread_switches", lm.switches)
            case = {"monitor": "override-threads", "run": r}
            for e in errors[:3]:
                ctx.violation("concurrent/url-override-mixed-up", f"run {r}: {e}", case)
            # restarted clients, one per server: each must hold ITS server's profile
            for u in (ua, ub):
                net.set_client("restart" + u[-1])
                try:
                    data = OFXClient(u, org="ORG1", fid="F1").request_profile().read()
                    a = asked["restart" + u[-1]][0][1]
                    if (b"SRV-" + u[-1].encode()) not in data or R.parse_datetime(a) != R.parse_datetime(dates[u]):
                        ctx.violation("concurrent/url-override-mixed-up", f"run {r}: after the threads a new client of {u} asked with {a} (its server's profile is dated "
                                      f"{dates[u]}) and got {data[-60:]!r}", case)
                except BaseException as e:  # noqa
                    ctx.violation("concurrent/url-override-mixed-up", f"run {r}: after the threads a new client of {u} fails: {e!r}"[:300], case)
            ctx.distinct(("override-threads", ctx.shard, r))
    finally:
        sys.setswitchinterval(old)


# ------------------------------------------------------------------ 4. right server
def wrongserver_monitor(ctx, net):
    from ofxtools.Client import OFXClient

    urls = ["https://ofx.fi-one.example/profile", "https://ofx.fi-one.example/other/path", "https://ofx.fi-one.example:8443/profile",
            "https://ofx.fi-two.example/profile", "http://ofx.fi-one.example/profile", "https://OFX.fi-one.example/profile?x=1"]
    idents = [("ORG1", "F1"), ("ORG1", "F2"), ("ORG2", "F1"), ("ORG1", None), (None, None), (None, "F1"), ("Cavion/Phoenix", "1"), ("Cavion", "Phoenix-1"), ("a-b", "c"), ("a", "b-c")]
    combos = [(ua, ia, ub, ib) for ua in urls[:3] for ia in idents for ub in urls for ib in idents]
    rng = random.Random(f"C15w/{ctx.seed}")
    rng.shuffle(combos)
    forced = [(ua, ia, ub, ia) for ua in urls[:3] for ub in urls if ub != ua for ia in idents[:5]]  # one FI at two URLs
    rng.shuffle(forced)
    # identities that differ only where a careless file name would not: text that reads like a missing value, and long
    # non-ASCII names (legal: 32 characters) that agree in their first dozen characters
    la, lb = "\u4e2d\u56fd\u5de5\u5546\u94f6\u884c\u80a1\u4efd\u6709\u9650\u516c\u53f8\u5317\u4eac\u5206\u884c", "\u4e2d\u56fd\u5de5\u5546\u94f6\u884c\u80a1\u4efd\u6709\u9650\u516c\u53f8\u4e0a\u6d77\u5206\u884c"
    near = [((None, None), ("None", "None")), ((la, "1"), (lb, "1")), (("ORG1", la), ("ORG1", lb)), (("ORG1", None), ("ORG1", "None")),
            (("%41", "1"), ("A", "1")), (("a b", "1"), ("a+b", "1")), (("ORG1", "F1"), ("org1", "f1"))]
    near = [(u, x, u, y) for u in urls[:2] for a, b in near for x, y in ((a, b), (b, a))]
    combos = near + forced[:48 if ctx.tier == "quick" else 75] + combos
    n = 240 if ctx.tier == "quick" else 1307
    for i, (ua, ia, ub, ib) in enumerate(combos[:n]):
        if i % ctx.nshards != ctx.shard:
            continue
        clear_cache()
        same = (ua == ub and ia == ib)
        server_dt = {ua: dt_text(8)}
        server_dt.setdefault(ub, dt_text(3))  # server B's own profile is OLDER than A's: it would say 'up to date' to A's date
        asked = {}

        def handler(rec):
            u = rec["url"]
            a = asked_date(rec["body"])
            asked.setdefault(rec["client"], []).append(a)
            if a and R.parse_datetime(a) >= R.parse_datetime(server_dt[u]):
                return Reply(ofxserver.profile_uptodate())
            return Reply(ofxserver.profile_ok(server_dt[u], u, u, finame=("SRV-" + str(urls.index(u)) + "-" + rec["client"][1:])[:32]))

        net.handler = handler
        ctx.ev()
        ctx.count("wrongserver_pairs")
        # every third pair of one FI at two URLs: the second request is made by the SAME client object through the per-call url= override
        override = ia == ib and ua != ub and (i // ctx.nshards) % 3 != 1
        case = {"monitor": "wrongserver", "a": [ua, ia], "b": [ub, ib], "override": override}
        ra2 = None
        try:
            net.set_client("A" + str(ia))
            client_a = OFXClient(ua, org=ia[0], fid=ia[1])
            ra = client_a.request_profile().read()
            net.set_client("B" + str(ib))
            if override:
                ctx.count("wrongserver_url_override_pairs")
                rb = client_a.request_profile(url=ub).read()
                net.set_client("A2")
                ra2 = client_a.request_profile().read()
            else:
                rb = OFXClient(ub, org=ib[0], fid=ib[1]).request_profile().read()
        except BaseException as e:
            ctx.violation("wrong-server/request-fails", f"pair {case}: {e!r}", case)
            continue
        if ra2 is not None and ((b"SRV-%d-" % urls.index(ua)) not in ra2 or R.parse_datetime(asked["A2"][0]) != R.parse_datetime(dt_text(8))):
            ctx.violation("wrong-server/url-override-disturbed-own-cache", f"after request_profile(url={ub}) the client of {ua} asked with {asked['A2'][0]} and got {ra2[-80:]!r}", case)
        b_asked = asked["B" + str(ib)][0] if ("B" + str(ib)) != ("A" + str(ia)) else asked["A" + str(ia)][1]
        if same:
            if R.parse_datetime(b_asked) != R.parse_datetime(dt_text(8)):
                ctx.violation("same-server/cache-not-used", f"identical client asked with {b_asked}, profile held is dated {dt_text(8)}", case)
        else:
            diff = "different-url" if ua != ub else "different-org-fid"
            samehost = ua.split("/")[2].lower().split(":")[0] == ub.split("/")[2].lower().split(":")[0]
            kind = f"same-org-fid-{diff}" if ia == ib else diff
            if R.parse_datetime(b_asked) != R.parse_datetime("19900101"):
                ctx.violation(f"wrong-server/{kind}", f"client B ({ub}, {ib}) asked with DTPROFUP {b_asked} taken from the profile cached for ({ua}, {ia})", case)
            elif rb == ra and ua != ub:
                ctx.violation(f"wrong-server/{kind}", f"client B ({ub}, {ib}) was given the profile of ({ua}, {ia})", case)
            elif (b"SRV-%d-" % urls.index(ub)) not in rb:
                ctx.violation(f"wrong-server/{kind}", f"client B's profile does not come from its own server {ub}", case)
        ctx.distinct(("ws", ua, ia, ub, ib))
        if i == ctx.shard:
            ctx.sample({"monitor": "right server", "client_a": [ua, ia], "client_b": [ub, ib], "b_asked_with": b_asked})


# ------------------------------------------------------------------ driver
def run_shard(ctx):
    R.selftest()
    net = FakeNet().install()
    try:
        seq_monitor(ctx, net)
        wrongserver_monitor(ctx, net)
        schedules_monitor(ctx, net)
        scan_monitor(ctx, net)
        override_threads_monitor(ctx, net)
    finally:
        net.remove()
    crash_monitor(ctx)


def replay(ctx, case):
    R.selftest()
    net = FakeNet().install()
    try:
        m = case["monitor"]
        if m == "seq":
            run_history(ctx, net, case["seq"], case["fresh"], case["variant"])
        elif m == "override-threads":
            override_threads_monitor(ctx, net)
        elif m == "wrongserver":
            ctx.seed = ctx.seed
            wrongserver_monitor(ctx, net)
        elif m == "schedule":
            schedules_monitor(ctx, net)
        elif m == "scan":
            scan_monitor(ctx, net)
    finally:
        net.remove()
    if case["monitor"] == "crash":
        crash_monitor(ctx)
