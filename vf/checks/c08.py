"""C08 - improperly nested or truncated markup is never silently accepted.

Fault enumeration: valid bodies x {truncation, end-tag deletion / renaming /
duplication / transposition, stray end tag, stray text, second top-level
element}.  The reference tokenizer decides whether the faulted text is still a
well-formed body: if not, the real parser must raise (returning an Element is
the violation); if it still is (a benign fault), the real parser must return
exactly the reference tree - so a benign fault can never raise a false alarm.
"""
import io
import random
import re

from vf.gen import render
from vf.oracles import ref_sgml

PROP = "C08"
LEVEL = "fault_enumeration"
TECHNIQUE = "fault injection on markup + runtime monitor on TreeBuilder.feed/close and OFXTree.parse; reference tokenizer classifies each faulted text as ill-formed (must raise) or still well-formed (must equal reference tree)"
RULE = ("valid bodies (the library's own serializations of generated model instances in XML / closed SGML / unclosed SGML, "
        "pretty or not, and independently rendered random trees) x faults: truncation at every token boundary -1/0/+1 (quick) "
        "or every character (thorough, bodies <= 2 kB); delete / misspell / rename-to-parent / rename-to-sibling / duplicate "
        "every aggregate end tag; transpose adjacent end tags; stray end tag or stray text at token boundaries; second "
        "top-level element; thorough also pairs of faults. A case = (faulted text); non-trivial = the text differs from the valid body")
ASSUMPTIONS = ["ref_sgml.py decides well-formedness (self-tested)",
               "an input without a single complete tag, from which the parser extracts no element at all (returns None), is recorded, not judged; with at least one complete tag, neither a tree nor an error is a violation",
               "routes: fresh TreeBuilder; fresh OFXTree.parse; ONE long-lived OFXTree that parsed a good document before; two builders alive at once (A fed, B parses a good document, A closed)",
               "faults keep tag names inside the OFX tag alphabet (A-Z 0-9 . _)"]
LEVEL_TEXT = ("Fault enumeration: each fault class named by the property is applied at every applicable position of thousands of "
              "valid bodies; the observed outcome (raised / returned a tree) is judged against an independent tokenizer, both through "
              "TreeBuilder and through OFXTree.parse with a header.")
LEVEL_NOTE = "Trusts ref_sgml.py; truncation inside a multi-byte UTF-8 sequence is done at character level (the header layer is C05's business)."
DESIGN_REF = "DESIGN.md §3 C08"
MIN_COUNTERS = {"quick": {"illformed_cases_with_comments": 6000, "via_reused_OFXTree": 8000, "via_interleaved_builders": 8000, "illformed_cases": 20000, "benign_cases": 500, "via_OFXTree_parse": 500},
                "thorough": {"via_reused_OFXTree": 100000, "via_interleaved_builders": 100000, "illformed_cases": 1000000, "benign_cases": 8000, "via_OFXTree_parse": 100000}}

TOKEN_RE = re.compile(r"<[^<>]*>")
V1HDR = "OFXHEADER:100\r\nDATA:OFXSGML\r\nVERSION:160\r\nSECURITY:NONE\r\nENCODING:UNICODE\r\nCHARSET:NONE\r\nCOMPRESSION:NONE\r\nOLDFILEUID:NONE\r\nNEWFILEUID:NONE\r\n\r\n"


def shards(tier):
    return 16


def timeout(tier):
    return 900 if tier == "quick" else 5400


def lib_tb(text):
    from ofxtools.Parser import TreeBuilder

    b = TreeBuilder()
    b.feed(text)
    return b.close()


def lib_tree(text):
    from ofxtools.Parser import OFXTree

    t = OFXTree()
    return t.parse(io.BytesIO((V1HDR + text).encode("utf_8")))


GOOD = "<OFX><SIGNONMSGSRSV1><SONRS><STATUS><CODE>0</CODE><SEVERITY>INFO</SEVERITY></STATUS></SONRS></SIGNONMSGSRSV1></OFX>"
_REUSED = []


def lib_tree_reused(text):
    """The same through ONE long-lived OFXTree object that has parsed a good document before (as an application looping over
    downloaded files does): the damaged one must still be refused - not answered with the previous document's tree."""
    from ofxtools.Parser import OFXTree

    if not _REUSED:
        _REUSED.append(OFXTree())
    t = _REUSED[0]
    t.parse(io.BytesIO((V1HDR + GOOD).encode("utf_8")))
    return t.parse(io.BytesIO((V1HDR + text).encode("utf_8")))


def lib_interleaved(text):
    """Two builders alive at once (as in a thread pool): the damaged body is fed to A, then B parses a good document from start to
    end, then A is closed."""
    from ofxtools.Parser import TreeBuilder

    a = TreeBuilder()
    a.feed(text)
    b = TreeBuilder()
    b.feed(GOOD)
    if b.close() is None:
        raise AssertionError("good document gave no tree")
    return a.close()


V2HDR = '<?xml version="1.0" encoding="UTF-8" standalone="no"?>\r\n<?OFX OFXHEADER="200" VERSION="220" SECURITY="NONE" OLDFILEUID="NONE" NEWFILEUID="NONE"?>\r\n'


def lib_tree_v2(text):
    """The file parser again, with a version-2 header in front of the same body (an XML fast path would only be taken here)."""
    from ofxtools.Parser import OFXTree

    return OFXTree().parse(io.BytesIO((V2HDR + text).encode("utf_8")))


ROUTES = {"tb": lib_tb, "tree": lib_tree, "tree-v2": lib_tree_v2, "tree-reused": lib_tree_reused, "interleaved": lib_interleaved}
HAS_TAG = re.compile(r"<[^<>]+>")

AMBIGUOUS_CDATA = re.compile(r"<([A-Z0-9._]+)><!\[CDATA\[(?:(?!\]\]>).)*\]\]>\s+</\1>", re.S)


def with_comments(text, rng):
    """The same text with three XML comments put between tags (first, middle and last '><' boundary)."""
    # only right after a complete TAG that is followed (after blanks) by another '<': never after element data (a '>' inside data
    # is not a tag end, and a comment between data and its end tag would detach that end tag from its element)
    cuts = [m.end(1) for m in re.finditer(r"(</?[A-Z0-9._]+>)\s*(?=<)", text) if not text[: m.start()].rstrip().endswith("]]>")]
    if len(cuts) < 3:
        return None
    picks = sorted({cuts[0], cuts[len(cuts) // 2], cuts[-1]}, reverse=True)
    for i, c in enumerate(picks):
        text = text[:c] + rng.choice(["<!-- note -->", "<!--x-->", "<!-- a > b -->"]) + text[c:]
    return text


def judge_commented(ctx, text, fault, rng):
    """An ill-formed body stays ill-formed when comments are put between its tags (judged in this direction only: whether comments
    are tolerated at all is not the property's business)."""
    try:
        ref_sgml.parse(text)
        return
    except ref_sgml.RefError as e:
        ill = str(e)
    if ill.startswith("unterminated tag at ") or AMBIGUOUS_CDATA.search(text) or "<![CDATA[" in text:
        return
    ctext = with_comments(text, rng)
    if ctext is None:
        return
    ctx.ev()
    ctx.count("illformed_cases_with_comments")
    try:
        root = lib_tb(ctext)
    except Exception:  # noqa: refused
        return
    if root is not None:
        ctx.violation("accepted/with-comments", f"{fault} + comments -> parser returned <{root.tag}> for ill-formed body ({ill}): {ctext[-160:]!r}",
                      {"text": text, "fault": fault, "via_tree": "tb", "commented": ctext})


def judge(ctx, text, fault, via_tree=False):
    if AMBIGUOUS_CDATA.search(text):
        # whitespace between ']]>' and an end tag of the same name: UNSPECIFIED layout (is it the element's own end tag or
        # its parent's?) - the generator never writes it, but fault pairs can produce it
        ctx.count("unspecified_whitespace_after_cdata")
        return
    ctx.ev()
    try:
        want = ref_sgml.parse(text)
        ill = None
    except ref_sgml.RefError as e:
        want, ill = None, str(e)
    via = via_tree if isinstance(via_tree, str) else ("tree" if via_tree else "tb")
    fn = ROUTES[via]
    ctx.count({"tb": "via_TreeBuilder", "tree": "via_OFXTree_parse", "tree-v2": "via_OFXTree_parse_v2_header", "tree-reused": "via_reused_OFXTree", "interleaved": "via_interleaved_builders"}[via])
    case = {"text": text, "fault": fault, "via_tree": via}
    try:
        root = fn(text)
        exc = None
    except Exception as e:  # any error is a refusal
        root, exc = None, e
    if ill is not None and ill.startswith("unterminated tag at "):
        # a dangling '<...' fragment AFTER an otherwise complete document is not one of the property's faults
        # (the document is not "cut off before its final end tag"); the tokenizer skips it.  Only reachable by fault pairs.
        try:
            ref_sgml.parse(text[: int(ill.rsplit(" ", 1)[1])])
            ctx.count("unspecified_trailing_fragment_after_complete_document")
            return
        except (ref_sgml.RefError, ValueError):
            pass
    if ill is not None:
        ctx.count("illformed_cases")
        if exc is None and root is not None:
            kind = fault["kind"]
            group = {"truncate": "truncated", "delete-end": "end-tag-mismatch", "rename-end": "end-tag-mismatch",
                     "transpose-end": "end-tag-mismatch", "dup-end": "stray-end-tag", "stray-end": "stray-end-tag",
                     "stray-text": "stray-text", "second-root": "second-root"}.get(kind, kind)
            ctx.violation(f"accepted/{group}", f"{fault} -> parser returned <{root.tag}> for ill-formed body ({ill}): {text[-120:]!r}", case)
        elif exc is None and root is None:
            if HAS_TAG.search(text) and not text.lstrip().startswith("<!--"):
                # at least one complete tag was there to be mis-nested: "it fails with an error" - saying nothing is not failing
                ctx.violation("no-error/returned-None", f"{fault} via {via}: ill-formed body ({ill}) gave neither a tree nor an error: {text[-120:]!r}", case)
            else:
                ctx.count("returned_None_not_judged")  # not a single complete tag in the text
        else:
            ctx.count("refused_" + type(exc).__name__)
    else:
        ctx.count("benign_cases")
        if exc is not None:
            ctx.violation(f"benign-fault/raises-{type(exc).__name__}", f"{fault}: still well-formed body rejected: {exc!r}: {text[-120:]!r}", case)
        elif root is None or ref_sgml.from_etree(root) != want:
            ctx.violation("benign-fault/wrong-tree", f"{fault}: tree differs from reference for {text[-160:]!r}", case)


def tokens(text):
    return [(m.start(), m.end(), m.group(0)) for m in TOKEN_RE.finditer(text)]


def agg_end_tags(text):
    """(start, end, name) of end tags that close aggregates (per the reference parse)."""
    toks = tokens(text)
    out = []
    # an end tag closes an aggregate iff the matching start tag was not followed by data
    stack = []
    for idx, (s, e, t) in enumerate(toks):
        if t.startswith("</"):
            name = t[2:-1]
            if stack and stack[-1][0] == name and stack[-1][1]:
                stack.pop()
                out.append((s, e, name))
            elif stack and stack[-1][0] == name:
                stack.pop()
        elif t.startswith("<!"):
            continue
        elif t.endswith("/>"):
            continue  # XML empty-element tag: opens and closes by itself
        else:
            name = t[1:-1]
            nxt = text[e:toks[idx + 1][0]] if idx + 1 < len(toks) else text[e:]
            has_data = bool(nxt.strip()) or text.startswith("<![CDATA[", e)
            if has_data:
                # data element; may or may not have its own end tag
                if idx + 1 < len(toks) and toks[idx + 1][2] == f"</{name}>":
                    stack.append((name, False))
                elif text.startswith("<![CDATA[", e):
                    j = text.find("]]>", e)
                    if text.startswith(f"</{name}>", j + 3):
                        stack.append((name, False))
            else:
                stack.append((name, True))
    return out


def faults(text, rng, every_char, limit):
    """Yield (faulted_text, fault-description)."""
    toks = tokens(text)
    n = len(text)
    # truncation
    if every_char and n <= 2048:
        cuts = range(0, n)
    else:
        cuts = sorted({p for s, e, _ in toks for p in (s - 1, s, s + 1, e - 1, e, e + 1) if 0 <= p < n})
        if len(cuts) > limit:
            cuts = sorted(rng.sample(cuts, limit))
    last_close = text.rstrip().rfind(">")
    for c in cuts:
        if c <= last_close:
            yield text[:c], {"kind": "truncate", "at": c}
    if not toks:
        return
    ends = agg_end_tags(text)
    # element names for stray / wrong end tags (the NAME of an empty-element tag <B/> is B: '</B/>' would be junk, not an end tag)
    names = sorted({t[1:-1].rstrip("/ ") for _, _, t in toks if not t.startswith("</") and not t.startswith("<!")} - {""}) or ["ZZ"]
    pick = ends if len(ends) <= limit // 4 else rng.sample(ends, limit // 4)
    for (s, e, name) in pick:
        yield text[:s] + text[e:], {"kind": "delete-end", "tag": name, "at": s}
        mis = name[::-1] if name[::-1] != name else name + "X"
        yield text[:s] + f"</{mis}>" + text[e:], {"kind": "rename-end", "tag": name, "to": mis, "at": s}
        other = rng.choice(names)
        if other != name:
            yield text[:s] + f"</{other}>" + text[e:], {"kind": "rename-end", "tag": name, "to": other, "at": s}
        yield text[:e] + f"</{name}>" + text[e:], {"kind": "dup-end", "tag": name, "at": s}
    # transpose adjacent end tags
    for i in range(len(toks) - 1):
        (s1, e1, t1), (s2, e2, t2) = toks[i], toks[i + 1]
        if t1.startswith("</") and t2.startswith("</") and not text[e1:s2].strip():
            yield text[:s1] + t2 + text[e1:s2] + t1 + text[e2:], {"kind": "transpose-end", "tags": [t1, t2], "at": s1}
    # stray end tag / stray text at token boundaries
    # (never inside a CDATA section or between a start tag and its CDATA data: that would
    #  change what the fault means - an orphan CDATA section is not among the property's faults)
    cspans = []
    i = text.find("<![CDATA[")
    while i >= 0:
        j = text.find("]]>", i)
        j = n if j < 0 else j + 3
        cspans.append((i, j))
        i = text.find("<![CDATA[", j)

    def clear(b):
        return not any(a <= b < z for a, z in cspans)

    bounds = [e for _, e, _ in toks if clear(e) and clear(e - 1)] + [0]
    for b in (bounds if len(bounds) <= limit // 4 else rng.sample(bounds, limit // 4)):
        stray = rng.choice(names)
        yield text[:b] + f"</{stray}>" + text[b:], {"kind": "stray-end", "tag": stray, "at": b}
    # text after an end tag (the property's wording; text elsewhere is data or not listed)
    after_end = [e for _, e, t in toks if t.startswith("</") and clear(e) and clear(e - 1)]
    for b in (after_end if len(after_end) <= limit // 4 else rng.sample(after_end, limit // 4)):
        yield text[:b] + " junk " + text[b:], {"kind": "stray-text", "at": b}
    # ... and text right behind a CDATA section whose element has no end tag of its own (the section IS the data; what follows it
    # up to the next tag is stray text like any other)
    for a, z in cspans[:6]:
        if z <= len(text) and text[z - 3:z] == "]]>" and not text.startswith("</", z):
            yield text[:z] + "stray" + text[z:], {"kind": "stray-text", "at": z, "after": "cdata-without-end-tag"}
    yield text + "<ZZ><Q>1</Q></ZZ>", {"kind": "second-root"}
    yield text + "<ZZ>1", {"kind": "second-root"}
    yield "<ZZ></ZZ>" + text, {"kind": "second-root"}


def bodies(ctx):
    """Valid bodies: library serializations of generated instances + independently rendered trees."""
    from ofxtools.Client import OFXClient
    from vf.gen import instances
    from vf.oracles import ref_decl

    rng = ctx.rng
    classes = list(ref_decl.all_classes().items())
    forms = [(203, False, True), (220, True, True), (102, False, True), (160, True, True), (103, False, False), (151, True, False)]
    per = 1 if ctx.tier == "quick" else 24
    for ci, (name, cls) in enumerate(classes):
        if ci % ctx.nshards != ctx.shard:
            continue
        for p in range(per):
            seedstr = f"C08/{ctx.seed}/{name}/{p}"
            try:
                inst = instances.build(cls, random.Random(seedstr), "random", opts=instances.Opts(maxdepth=5))
            except Exception:
                ctx.count("gen_failed")
                continue
            ver, pretty, close = forms[(ci + p) % 6]
            try:
                data = OFXClient("http://x", version=ver, prettyprint=pretty, close_elements=close).serialize(inst)
            except Exception:
                ctx.count("serialize_failed")
                continue
            text = data.decode("utf_8")
            body = text[text.index("<" + name + ">"):]
            if len(body) > 6000:
                continue
            yield body, {"src": "library", "cls": name, "form": [ver, pretty, close], "seedstr": seedstr}
    n = 60 if ctx.tier == "quick" else 1500
    for j in range(n):
        tree = render.random_tree(rng, maxnodes=rng.choice([5, 12, 40]), maxdepth=6)
        yield render.random_rendering(tree, rng), {"src": "render", "j": j}
    # valid bodies whose LAST data element is a CDATA section quoting the very end tags that follow it (a memo quoting markup):
    # cut off inside that section, what remains LOOKS complete to anything that merely skips what it cannot read
    for j in range(6 if ctx.tier == "quick" else 120):
        tree = render.random_tree(rng, maxnodes=rng.choice([4, 9, 20]), maxdepth=5)
        flat = render.render(tree, lambda i, d: (True, False), lambda k: "")
        m = None
        for m in re.finditer(r"<([A-Z0-9._]+)>([^<>]+)</\1>", flat):
            pass
        if m is None:
            continue
        rest = flat[m.end(2):]           # </LEAF></PARENT>...</ROOT>
        quoted = rng.choice(["", "see ", m.group(2) + " "]) + rest + rng.choice(["", " ok"])
        body = flat[: m.start(2)] + "<![CDATA[" + quoted + "]]>" + rest
        a = m.start(2) + len("<![CDATA[")
        yield body, {"src": "cdata-quoting-end-tags", "j": j, "cdata_span": [a, a + len(quoted) + 2]}


def run_shard(ctx):
    try:
        ref_sgml.selftest()
    except AssertionError as e:
        ctx.inconclusive_because(f"reference tokenizer self-test failed: {e}")
        return
    rng = ctx.rng
    thorough = ctx.tier == "thorough"
    for bi, (body, meta) in enumerate(bodies(ctx)):
        if ctx.time_left() < 20:
            ctx.note("time budget reached; remaining bodies skipped")
            break
        try:
            ref_sgml.parse(body)
        except ref_sgml.RefError as e:
            # a body the library itself produced that the reference rejects is C01/C11 business
            ctx.count("valid_body_rejected_by_reference")
            ctx.note(f"reference rejects body from {meta}: {e}")
            continue
        ctx.count("bodies")
        judge(ctx, body, {"kind": "none"}, via_tree=(bi % 5 == 0))
        flist = list(faults(body, rng, every_char=thorough and bi % 4 == 0, limit=120 if not thorough else 400))
        if meta.get("cdata_span"):
            a, b = meta["cdata_span"]
            cuts = list(range(a, b + 1))
            flist += [(body[:c], {"kind": "truncate", "at": c, "inside": "cdata"}) for c in (cuts if len(cuts) <= 60 else rng.sample(cuts, 60))]
            ctx.count("bodies_with_cdata_quoting_end_tags")
        for fi, (text, fault) in enumerate(flist):
            if text == body:
                continue
            judge(ctx, text, fault, via_tree=("tree" if fi % 7 == 0 else "tree-v2" if fi % 7 == 1 else "tree-reused" if fi % 7 == 3 else "interleaved" if fi % 7 == 5 else "tb"))
            if fi % 5 == 1:
                judge_commented(ctx, text, fault, rng)
            ctx.distinct(text)
            ctx.add("fault_kinds", fault["kind"])
        if thorough:
            # pairs of faults
            for _ in range(30):
                (t1, f1) = rng.choice(flist)
                sub = list(faults(t1, rng, every_char=False, limit=12)) if 0 < len(t1) < 6000 else []
                if sub:
                    t2, f2 = rng.choice(sub)
                    judge(ctx, t2, {"kind": f1["kind"], "second": f2["kind"], "pair": True})
                    ctx.distinct(t2)
        if bi % 8 == 0 and flist:
            t, f = flist[len(flist) // 2]
            ctx.sample({"body_src": meta, "fault": f, "faulted_tail": t[-100:]})


def replay(ctx, case):
    ref_sgml.selftest()
    if case.get("commented"):
        judge_commented(ctx, case["text"], case["fault"], ctx.rng)
        return
    judge(ctx, case["text"], case["fault"], via_tree=case.get("via_tree", False))
