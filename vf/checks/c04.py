"""C04 - every declared constraint is enforced on both construction routes.

For every class and every constraint found by the independent MRO walk, a valid
base instance is perturbed so that exactly that constraint is violated (or
exactly met, for boundaries) and fed to the real constructor (kwargs route) and
to Aggregate.from_etree (element-tree route).  Monitors: returned-vs-raised per
attempt; the __init__ post-condition (independent validator) on every instance
that comes into existence during the whole run.
"""
import copy
import decimal
import random
import warnings
import xml.etree.ElementTree as ET

from vf.gen import instances
from vf.monitors import online
from vf.oracles import spec
from vf.oracles import ref_decl, ref_validate

PROP = "C04"
LEVEL = "exploration"
TECHNIQUE = "per-constraint fault injection on both construction routes with returned/raised monitor + __init__ post-condition monitor (independent validator on every instance that exists)"
RULE = ("EVERY class x EVERY declared constraint (required child, at-most-one / exactly-one groups incl. mixin-declared, enumeration sets, "
        "string limits, integer digit limits, sequence order, single occurrence, permitted list member types) x both routes (keyword "
        "construction, from_etree) x {violating, boundary} inputs: omit required; each pair of a group; none of a required group; foreign "
        "tokens (suffix / lower-case / other enumeration's token); strings of limit and limit+1; integers 10^n-1 and 10^n; swap each adjacent "
        "pair; duplicate each non-repeatable child; repeated child re-appearing after a later sibling; foreign aggregate / own sub-aggregate "
        "type / non-str as list member; unknown keyword. A case = (class, constraint, route, variant)")
ASSUMPTIONS = ["constraints derived by ref_decl.py's own MRO walk; validity of base instances from the generator",
               "'rejected' = any exception; the digit limit of an integer applies to its magnitude (sign not counted); UNSPECIFIED: custom validate_args rules beyond the listed kinds",
               "enumerated value sets are also compared with vf/oracles/spec_table.json (frozen copy of the reviewed declarations): a token the model accepts beyond it is offered as a foreign token",
               "on the etree route a foreign TAG is an unknown tag (C07: skipped), so foreign list members are judged on the kwargs route only"]
LEVEL_TEXT = ("Per-constraint exhaustive exploration: the constraint set is finite (~2100 children, ~120 groups) and every constraint is "
              "violated once per route and met exactly at its boundary every run; the independent validator additionally watches every instance "
              "constructed anywhere in the run (tens of thousands), so an instance that escapes a check is seen even where no probe aimed at it.")
LEVEL_NOTE = "Trusts ref_decl/ref_validate; values are plain ASCII so that exactly one constraint is violated per attempt."
DESIGN_REF = "DESIGN.md §3 C04"
EXHAUSTIVE = {"quick": "every declared constraint of every class x both routes, 2 base instances each", "thorough": "same x 8 base instances"}
MIN_COUNTERS = {"quick": {"must_reject": 9000, "must_accept": 2500, "route_kwargs": 4000, "route_etree": 6000, "monitor_init_postcondition_calls": 30000},
                "thorough": {"must_reject": 200000, "must_accept": 40000, "route_kwargs": 100000, "route_etree": 120000, "monitor_init_postcondition_calls": 600000}}


_PARENTS = {}


def parents_of(name):
    """[(parent class, attribute)] where the parent declares `name` as an optional, non-repeated sub-aggregate."""
    if not _PARENTS:
        for pname, pcls in ref_decl.all_classes().items():
            if ref_decl.overrides_validate_args(pcls):
                continue
            opt, req = ref_decl.mutexes_in_force(pcls)
            grouped = {g for grp in list(opt) + list(req) for g in grp}
            for k, t in ref_decl.decl(pcls).items():
                if ref_decl.kind_of(t) == "sub" and not getattr(t, "required", False) and k not in grouped:
                    _PARENTS.setdefault(t.__type__.__name__, []).append((pname, k))
        _PARENTS.setdefault("", [])
    return _PARENTS.get(name, [])


_FOREIGN = []


def foreign_tokens():
    """Every string token of every enumeration the library declares (sorted, stable)."""
    if not _FOREIGN:
        from ofxtools import Types as T
        seen = set()
        for cls in ref_decl.all_classes().values():
            for d in ref_decl.decl(cls).values():
                conv = d.converter if isinstance(d, T.ListElement) else d
                if isinstance(conv, T.OneOf):
                    seen.update(x for x in conv.valid if isinstance(x, str))
        _FOREIGN.extend(sorted(seen))
    return _FOREIGN


def shards(tier):
    return 16


def timeout(tier):
    return 900 if tier == "quick" else 5400


def O(**kw):
    return instances.Opts(stratum="plain", maxdepth=6, **kw)


class Probe:
    def __init__(self, ctx, name, cls, seedstr):
        self.ctx, self.name, self.cls, self.seedstr = ctx, name, cls, seedstr
        self.rng = random.Random(seedstr)
        self.d = ref_decl.decl(cls)
        self._nested_done = 0

    # ---- outcome monitors ----
    def attempt(self, route, fn):
        self.ctx.count("route_" + route)
        with warnings.catch_warnings(record=True) as w:
            warnings.simplefilter("always")
            try:
                return "returned", fn(), w
            except Exception as e:
                return "raised", e, w

    def must_reject(self, what, route, fn, detail):
        ctx = self.ctx
        self._cur_what = what
        ctx.ev()
        ctx.count("must_reject")
        st, r, _ = self.attempt(route, fn)
        if st == "returned":
            ctx.violation(f"{what}/{route}/{self.name}{('.' + detail) if detail else ''}",
                          f"{self.name}: {what} ({detail}) accepted on the {route} route -> {r!r}"[:500],
                          {"cls": self.name, "seedstr": self.seedstr, "what": what, "route": route, "detail": detail})

    def must_accept(self, what, route, fn, detail, want_warning=False):
        ctx = self.ctx
        ctx.ev()
        ctx.count("must_accept")
        st, r, w = self.attempt(route, fn)
        case = {"cls": self.name, "seedstr": self.seedstr, "what": what, "route": route, "detail": detail}
        if st == "raised":
            ctx.violation(f"{what}-rejected/{route}/{self.name}.{detail}", f"{self.name}: {what} ({detail}) rejected on the {route} route: {r!r}"[:500], case)
            return None
        probs = ref_validate.check(r)
        if probs:
            ctx.violation(f"{what}-invalid-instance/{route}/{self.name}.{detail}", f"{self.name}: returned instance violates {probs[:2]}", case)
        if want_warning and not any(issubclass(x.category, UserWarning) for x in w):
            ctx.violation(f"nagstring-no-warning/{route}/{self.name}.{detail}", f"{self.name}.{detail}: over-long warn-only string gave no warning", case)
        return r

    # ---- helpers ----
    def base(self, force=(), exclude=(), profile="min"):
        args, kwargs = instances.make_args(self.cls, self.rng, profile, 0, O(force=force, exclude=exclude))
        return args, kwargs

    def elem_of(self, args, kwargs):
        return self.cls(*args, **kwargs).to_etree()

    def from_etree(self, elem):
        from ofxtools.models.base import Aggregate
        try:
            return Aggregate.from_etree(elem)
        except Exception:
            self.nested(elem)
            raise

    def nested(self, elem):
        """The tree that was just refused, put where a parent class holds this class as an OPTIONAL child: the parent must refuse
        the whole document, not quietly go on without the child."""
        from ofxtools.models.base import Aggregate

        if elem.tag != self.name or self._nested_done >= 8:
            return
        parents = parents_of(self.name)
        if not parents:
            return
        pname, attr = parents[(self._nested_done + len(self.seedstr)) % len(parents)]
        self._nested_done += 1
        pcls = ref_decl.all_classes()[pname]
        try:
            pinst = instances.build(pcls, random.Random(self.seedstr + "/nested"), "min", opts=instances.Opts(stratum="plain", force=[attr]))
            ptree = pinst.to_etree()
            idx = next(i for i, c in enumerate(ptree) if c.tag == elem.tag)
        except Exception:
            self.ctx.count("base_failed")
            return
        ptree.remove(ptree[idx])
        ptree.insert(idx, copy.deepcopy(elem))
        self.ctx.ev()
        self.ctx.count("nested_violations_offered")
        try:
            with warnings.catch_warnings():
                warnings.simplefilter("ignore")
                got = Aggregate.from_etree(ptree)
        except Exception:
            return
        self.ctx.violation(f"nested-violation-swallowed/{pname}.{attr}", f"a <{elem.tag}> tree that {self.name} itself refuses ({getattr(self, '_cur_what', '?')}) "
                           f"was accepted inside {pname}: -> {got!r}"[:400],
                           {"cls": self.name, "seedstr": self.seedstr, "what": "nested", "route": "etree", "detail": f"{pname}.{attr}"})

    def tag(self, attr):
        return ref_decl.tag_of(self.cls, attr)

    # ---- constraint families ----
    def per_child(self):
        from ofxtools import Types as T

        cls, d = self.cls, self.d
        for attr, t in d.items():
            kind = ref_decl.kind_of(t)
            if kind in ("unsupported", "listagg", "listelem"):
                continue
            try:
                args, kwargs = self.base(force=[attr])
                elem = self.elem_of(args, kwargs)
            except Exception as e:
                self.ctx.count("base_failed")
                self.ctx.note(f"base for {self.name}.{attr} failed: {str(e)[:120]}")
                continue
            tag = self.tag(attr)
            self.ctx.distinct((self.name, attr))
            # required child omitted
            if getattr(t, "required", False):
                k2 = {k: v for k, v in kwargs.items() if k != attr}
                self.must_reject("required-omitted", "kwargs", lambda: cls(*args, **k2), attr)
                k3 = dict(kwargs, **{attr: None})
                self.must_reject("required-omitted", "kwargs", lambda: cls(*args, **k3), attr + "=None")
                e2 = copy.deepcopy(elem)
                for c in [c for c in e2 if c.tag == tag]:
                    e2.remove(c)
                self.must_reject("required-omitted", "etree", lambda: self.from_etree(e2), attr)
                if kind == "elem":
                    # present but empty: an element without a value is as absent as an omitted one
                    self.must_reject("required-empty", "kwargs", lambda: cls(*args, **dict(kwargs, **{attr: ""})), attr + "=''")
                    for empty in ("", None):
                        self.must_reject("required-empty", "etree", lambda em=empty: self.from_etree(self.with_text(elem, tag, em)), attr + f"={empty!r}")
            if kind != "elem":
                # wrong sub-aggregate type
                other = next((x.__type__ for x in d.values() if ref_decl.kind_of(x) in ("sub", "listagg") and x.__type__ is not t.__type__), None)
                if other is not None:
                    try:
                        wrong = instances.build(other, self.rng, "min", 1, O())
                        self.must_reject("wrong-subaggregate-type", "kwargs", lambda: cls(*args, **dict(kwargs, **{attr: wrong})), attr)
                    except instances.ConstructorRejected:
                        pass
                self.must_reject("wrong-subaggregate-type", "kwargs", lambda: cls(*args, **dict(kwargs, **{attr: "text"})), attr + "=str")
                continue
            # element value constraints
            if isinstance(t, T.OneOf):
                valid = list(t.valid)
                bads = [valid[0] + "X", valid[0].lower() if valid[0].lower() not in valid else valid[0] + "_", "ZZNOTATOKEN"]
                # tokens that ARE legal - for some other enumeration of the library; and two neighbours run together (a lost comma)
                pool = foreign_tokens()
                bads += [self.rng.choice(pool) for _ in range(6)] + [str(a) + str(b) for a, b in zip(valid, valid[1:])][:3]
                gold = spec.entry(self.name, attr)
                if gold and gold.get("tokens"):
                    gtok = [str(x) for x in gold["tokens"]]
                    bads += [x for x in valid if str(x) not in gtok][:3]  # accepted by the model, unknown to the specification table
                    self.ctx.count("enumerations_compared_with_spec_table")
                for bad in bads:
                    if bad in valid:
                        continue
                    self.must_reject("foreign-token", "kwargs", lambda b=bad: cls(*args, **dict(kwargs, **{attr: b})), attr)
                    self.must_reject("foreign-token", "etree", lambda b=bad: self.from_etree(self.with_text(elem, tag, b)), attr)
                for good in (valid[0], valid[-1], self.rng.choice(valid)):
                    self.must_accept("enumeration-member", "kwargs", lambda g=good: cls(*args, **dict(kwargs, **{attr: g})), attr)
                    self.must_accept("enumeration-member", "etree", lambda g=good: self.from_etree(self.with_text(elem, tag, g)), attr)
            elif isinstance(t, T.String) and t.length is not None:
                at, over = "x" * t.length, "y" * (t.length + 1)
                nag = isinstance(t, T.NagString)
                self.must_accept("string-at-limit", "kwargs", lambda: cls(*args, **dict(kwargs, **{attr: at})), attr)
                self.must_accept("string-at-limit", "etree", lambda: self.from_etree(self.with_text(elem, tag, at)), attr)
                if nag:
                    for route, fn in (("kwargs", lambda: cls(*args, **dict(kwargs, **{attr: over}))), ("etree", lambda: self.from_etree(self.with_text(elem, tag, over)))):
                        r = self.must_accept("nagstring-over-limit", route, fn, attr, want_warning=True)
                        if r is not None and r.__dict__.get(attr) != over:
                            self.ctx.violation(f"nagstring-truncated/{route}/{self.name}.{attr}", f"{self.name}.{attr}: warn-only string not kept whole", {"cls": self.name, "seedstr": self.seedstr, "what": "nag", "route": route, "detail": attr})
                else:
                    self.must_reject("string-over-limit", "kwargs", lambda: cls(*args, **dict(kwargs, **{attr: over})), attr)
                    self.must_reject("string-over-limit", "etree", lambda: self.from_etree(self.with_text(elem, tag, over)), attr)
                    # over the limit whether or not entities are decoded: a bare '&', an entity, markup characters, non-ASCII
                    for o2 in ("&" + "y" * t.length, "y" * t.length + "&", "&amp;" + "y" * t.length, "A&T " + "y" * t.length, "é" * (t.length + 1),
                               "y" * (t.length - 1) + "&lt;&gt;", " y" * t.length + "z"):
                        self.ctx.count("overlong_hostile_strings")
                        self.must_reject("string-over-limit", "kwargs", lambda o=o2: cls(*args, **dict(kwargs, **{attr: o})), attr)
                        self.must_reject("string-over-limit", "etree", lambda o=o2: self.from_etree(self.with_text(elem, tag, o)), attr)
                    if t.length >= 2:
                        # exactly at the limit once the entity is decoded (the parser hands element text over still escaped)
                        self.must_accept("string-at-limit", "etree", lambda: self.from_etree(self.with_text(elem, tag, "&amp;" + "x" * (t.length - 1))), attr + "=entity")
            elif isinstance(t, T.Integer) and t.length is not None:
                hi = 10**t.length - 1
                self.must_accept("integer-at-limit", "kwargs", lambda: cls(*args, **dict(kwargs, **{attr: hi})), attr)
                self.must_accept("integer-at-limit", "etree", lambda: self.from_etree(self.with_text(elem, tag, str(hi))), attr)
                self.must_reject("integer-over-limit", "kwargs", lambda: cls(*args, **dict(kwargs, **{attr: hi + 1})), attr)
                self.must_reject("integer-over-limit", "kwargs", lambda: cls(*args, **dict(kwargs, **{attr: str(hi + 1)})), attr + "=str")
                for over in (decimal.Decimal(hi + 1), float(hi + 1), decimal.Decimal(10) ** (t.length + 2), -(10 ** (t.length + 3))):
                    # whatever numeric type carries it: more digits than declared (refusing the TYPE is just as good)
                    self.must_reject("integer-over-limit", "kwargs", lambda o=over: cls(*args, **dict(kwargs, **{attr: o})), attr + "=" + type(over).__name__)
                self.must_reject("integer-over-limit", "etree", lambda: self.from_etree(self.with_text(elem, tag, str(hi + 1))), attr)

    def with_text(self, elem, tag, text):
        e2 = copy.deepcopy(elem)
        hit = [c for c in e2 if c.tag == tag]
        assert hit, (tag, [c.tag for c in e2])
        hit[0].text = text
        return e2

    def groups(self):
        cls, d = self.cls, self.d
        opt_any, req_any = ref_decl.mutexes_declared_anywhere(cls)
        allg = [("optional", list(g)) for g in opt_any] + [("required", list(g)) for g in req_any]
        for gkind, group in allg:
            if any(g not in d for g in group):
                continue
            related = set()
            for _, g2 in allg:
                if set(g2) & set(group):
                    related |= set(g2)
            self.ctx.distinct((self.name, tuple(group)))
            for i, a in enumerate(group):
                try:
                    args, kwargs = self.base(force=[a], exclude=[x for x in related if x != a])
                    alone = self.must_accept("group-single-member", "kwargs", lambda: cls(*args, **kwargs), a)
                except Exception:
                    self.ctx.count("base_failed")
                    continue
                if alone is None:
                    continue
                for b in group[i + 1:]:
                    vb = instances.child_value(cls, b, self.rng, O())
                    a2, k2 = list(args), dict(kwargs)
                    if ref_decl.kind_of(d[b]) not in ("listagg", "listelem") and not ref_decl.overrides_validate_args(cls):
                        # the same keyword NAMES with an explicit None first (valid), then with both set (must be refused)
                        kn = dict(kwargs, **{b: None})
                        self.must_accept("group-member-explicit-None", "kwargs", lambda: cls(*args, **kn), f"{a}+{b}=None")
                    if ref_decl.kind_of(d[b]) in ("listagg", "listelem"):
                        a2.append(vb)
                    else:
                        k2[b] = vb
                    why = "mutex-not-in-force" if gkind == "optional" else "exactly-one-group-two-accepted"
                    self.must_reject(why, "kwargs", lambda: cls(*a2, **k2), f"{a}+{b}")
                    # element-tree route: both children present, in declared order
                    try:
                        ea = alone.to_etree()
                        eb = self.child_elem(b, vb)
                        e2 = self.insert_in_order(ea, b, eb)
                        self.must_reject(why, "etree", lambda: self.from_etree(e2), f"{a}+{b}")
                    except Exception as e:
                        self.ctx.note(f"etree pair build failed {self.name} {a}+{b}: {str(e)[:100]}")
            if gkind == "required":
                try:
                    args, kwargs = self.base(exclude=list(related))
                except Exception:
                    continue
                self.must_reject("exactly-one-group-none-accepted", "kwargs", lambda: cls(*args, **kwargs), "+".join(group))
                # ... nor is a member that is present but EMPTY one of the group (an empty string is stored as 'no value')
                for g in group:
                    if ref_decl.kind_of(d[g]) == "elem":
                        ke = dict(kwargs, **{g: ""})
                        self.must_reject("exactly-one-group-none-accepted", "kwargs", lambda ke=ke: cls(*args, **ke), f"{g}=''")
                # etree: strip the members from a valid tree
                try:
                    a0, k0 = self.base(force=[group[0]], exclude=[x for x in related if x != group[0]])
                    e0 = self.elem_of(a0, k0)
                    tags = {self.tag(g) for g in group}
                    for c in [c for c in e0 if c.tag in tags]:
                        e0.remove(c)
                    if len(e0):
                        self.must_reject("exactly-one-group-none-accepted", "etree", lambda: self.from_etree(e0), "+".join(group))
                except Exception:
                    self.ctx.count("base_failed")

    def child_elem(self, attr, value):
        from ofxtools.models.base import Aggregate
        if isinstance(value, Aggregate):
            return value.to_etree()
        t = self.d[attr]
        conv = t.converter if ref_decl.kind_of(t) == "listelem" else t
        e = ET.Element(self.tag(attr))
        e.text = conv.unconvert(value)
        return e

    def insert_in_order(self, elem, attr, new):
        order = [self.tag(k) for k in self.d]
        e2 = copy.deepcopy(elem)
        pos = len(e2)
        idx = order.index(self.tag(attr))
        for i, c in enumerate(e2):
            if c.tag in order and order.index(c.tag) > idx:
                pos = i
                break
        e2.insert(pos, new)
        return e2

    def order_with_unsupported(self):
        """Children the models list but do not implement (Unsupported) still have their place in the sequence: one that arrives late
        does not let the children after it fall back, and it occurs once."""
        cls, d = self.cls, self.d
        order = list(d)
        for u in [k for k, t in d.items() if ref_decl.kind_of(t) == "unsupported"]:
            after = [k for k in order[order.index(u) + 1:] if ref_decl.kind_of(d[k]) in ("elem", "sub")]
            opt, req = ref_decl.mutexes_in_force(cls)
            pairs = [(y, x) for i, y in enumerate(after) for x in after[i + 1:] if not any(y in g and x in g for g in opt + req)]
            for y, x in pairs[:3]:
                try:
                    args, kwargs = self.base(force=[y, x])
                    inst = cls(*args, **kwargs)
                    if inst.__dict__.get(y) is None or inst.__dict__.get(x) is None:
                        continue
                    elem = inst.to_etree()
                    tags = [c.tag for c in elem]
                    iy, ix = tags.index(self.tag(y)), tags.index(self.tag(x))
                except Exception:
                    self.ctx.count("base_failed")
                    continue
                ue = ET.Element(self.tag(u))
                # in its own place: fine (not judged here).  Late, between a later child and an earlier one:
                e2 = copy.deepcopy(elem)
                cx = e2[ix]
                e2.remove(cx)
                e2.insert(iy, ue)
                e2.insert(iy, cx)          # ... X, U, Y ...
                self.ctx.count("orders_with_unsupported_child")
                self.must_reject("out-of-order-accepted", "etree", lambda e2=e2: self.from_etree(e2), f"{x},{u},{y}")
                e3 = copy.deepcopy(elem)
                e3.insert(iy, copy.deepcopy(ue))
                e3.insert(iy, copy.deepcopy(ue))   # U twice, in its place
                self.must_reject("duplicate-accepted", "etree", lambda e3=e3: self.from_etree(e3), u + "-unsupported")

    def order_and_duplicates(self):
        cls, d = self.cls, self.d
        plain = [k for k, t in d.items() if ref_decl.kind_of(t) in ("elem", "sub")]
        opt, req = ref_decl.mutexes_in_force(cls)
        groups = [set(g) for g in opt + req]
        done_dup = set()
        for a, b in zip(plain, plain[1:]):
            if any(a in g and b in g for g in groups):
                continue
            try:
                args, kwargs = self.base(force=[a, b])
                inst = cls(*args, **kwargs)
                if inst.__dict__.get(a) is None or inst.__dict__.get(b) is None:
                    continue
                elem = inst.to_etree()
            except Exception:
                self.ctx.count("base_failed")
                continue
            ta, tb = self.tag(a), self.tag(b)
            tags = [c.tag for c in elem]
            if ta not in tags or tb not in tags:
                continue
            ia, ib = tags.index(ta), tags.index(tb)
            e2 = copy.deepcopy(elem)
            ca, cb = e2[ia], e2[ib]
            e2[ia], e2[ib] = cb, ca
            self.ctx.distinct((self.name, "swap", a, b))
            self.must_reject("out-of-order-accepted", "etree", lambda: self.from_etree(e2), f"{b}<>{a}")
            for x, ix in ((a, ia), (b, ib)):
                if x in done_dup:
                    continue
                done_dup.add(x)
                e3 = copy.deepcopy(elem)
                e3.insert(ix + 1, copy.deepcopy(e3[ix]))
                self.must_reject("duplicate-accepted", "etree", lambda: self.from_etree(e3), x)
                # duplicate placed at the very end (after later siblings)
                if ix + 1 < len(elem):
                    e4 = copy.deepcopy(elem)
                    e4.append(copy.deepcopy(e4[ix]))
                    self.must_reject("duplicate-accepted", "etree", lambda: self.from_etree(e4), x + "@end")
        if len(plain) == 1 and plain[0] not in done_dup:
            try:
                args, kwargs = self.base(force=[plain[0]])
                elem = self.elem_of(args, kwargs)
                tg = self.tag(plain[0])
                ix = [c.tag for c in elem].index(tg)
                e3 = copy.deepcopy(elem)
                e3.insert(ix + 1, copy.deepcopy(e3[ix]))
                self.must_reject("duplicate-accepted", "etree", lambda: self.from_etree(e3), plain[0])
            except Exception:
                self.ctx.count("base_failed")

    def order_across_list_runs(self):
        """A class whose repeated children form two runs separated by plain children: a member of the later run, a member of the
        earlier run, then a plain child that belongs between the runs - the plain child is out of sequence."""
        cls, d = self.cls, self.d
        runs = instances.list_runs(cls)
        if len(set(runs.values())) < 2:
            return
        keys = list(d)
        lists = [k for k in keys if k in runs]
        for lo in lists:
            for hi in lists:
                if runs[hi] <= runs[lo]:
                    continue
                between = [k for k in keys[keys.index(lo) + 1: keys.index(hi)] if ref_decl.kind_of(d[k]) in ("elem", "sub")]
                if not between:
                    continue
                mid = between[0]
                try:
                    args, kwargs = self.base(force=[lo, hi, mid])
                    elem = self.elem_of(args, kwargs)
                    tl, th, tm = self.tag(lo), self.tag(hi), self.tag(mid)
                    kids = list(elem)
                    el = next(c for c in kids if c.tag == tl)
                    eh = next(c for c in kids if c.tag == th)
                    em = next(c for c in kids if c.tag == tm)
                except Exception:
                    self.ctx.count("base_failed")
                    continue
                e2 = copy.deepcopy(elem)
                for c in list(e2):
                    if c.tag in (tl, th, tm):
                        e2.remove(c)
                first = next((i for i, c in enumerate(elem) if c.tag in (tl, th, tm)), len(e2))
                pos = min(first, len(e2))
                for c in (copy.deepcopy(eh), copy.deepcopy(el), copy.deepcopy(em)):
                    e2.insert(pos, c)
                    pos += 1
                self.ctx.count("order_across_list_runs_probed")
                self.must_reject("out-of-order-accepted", "etree", lambda: self.from_etree(e2), f"{hi},{lo},{mid}")
                # members may interleave only WITHIN a run: a member of the earlier run after the plain child, or after a member of
                # the later run, is out of sequence as well
                for order, label in (((el, em, eh, el), f"{lo},{mid},{hi},{lo}"), ((eh, el), f"{hi},{lo}"), ((el, eh, el), f"{lo},{hi},{lo}")):
                    e3 = copy.deepcopy(elem)
                    for c in list(e3):
                        if c.tag in (tl, th, tm):
                            e3.remove(c)
                    pos = min(first, len(e3))
                    for c in order:
                        e3.insert(pos, copy.deepcopy(c))
                        pos += 1
                    self.must_reject("out-of-order-accepted", "etree", lambda e3=e3: self.from_etree(e3), label)
                # ... while the declared order itself is fine
                e4 = copy.deepcopy(elem)
                self.must_accept("declared-order", "etree", lambda: self.from_etree(e4), f"{lo},{mid},{hi}")
                return

    def list_members(self):
        from ofxtools.models.base import Aggregate, ElementList

        cls, d = self.cls, self.d
        lists = [k for k, t in d.items() if ref_decl.kind_of(t) in ("listagg", "listelem")]
        try:
            args, kwargs = self.base()
        except Exception:
            self.ctx.count("base_failed")
            return
        # a foreign aggregate (not mentioned anywhere in the class) as positional member
        allc = ref_decl.all_classes()
        mentioned = {t.__type__.__name__ for t in d.values() if ref_decl.kind_of(t) in ("sub", "listagg")}
        for fname in ("STATUS", "BANKACCTFROM", "CURRENCY"):
            if fname not in mentioned and fname != self.name:
                try:
                    foreign = instances.build(allc[fname], self.rng, "min", 1, O())
                except Exception:
                    continue
                self.must_reject("foreign-list-member-accepted", "kwargs", lambda: cls(*(list(args) + [foreign]), **kwargs), fname)
                break
        # one of the class's OWN non-repeatable sub-aggregate types as positional member
        for k, t in d.items():
            if ref_decl.kind_of(t) == "sub" and t.__type__.__name__.lower() not in lists:
                try:
                    own = instances.build(t.__type__, self.rng, "min", 1, O())
                except Exception:
                    continue
                k2 = {kk: v for kk, v in kwargs.items()}
                self.must_reject("own-subaggregate-as-list-member-accepted", "kwargs", lambda: cls(*(list(args) + [own]), **k2), k)
                k3 = {kk: v for kk, v in kwargs.items() if kk != k}
                self.must_reject("own-subaggregate-as-list-member-accepted", "kwargs", lambda: cls(*(list(args) + [own]), **k3), k + "-only-as-member")
                break
        if not issubclass(cls, ElementList):
            self.must_reject("non-aggregate-list-member-accepted", "kwargs", lambda: cls(*(list(args) + [5]), **kwargs), "int")
            # "nothing" is not a member either (an optional CHILD may be None; a member that is None is a member of no permitted type)
            self.must_reject("non-aggregate-list-member-accepted", "kwargs", lambda: cls(*(list(args) + [None]), **kwargs), "None")
            self.must_reject("non-aggregate-list-member-accepted", "kwargs", lambda: cls(*([None] + list(args)), **kwargs), "None-first")
            if not lists:
                self.must_reject("list-member-on-class-without-lists", "kwargs", lambda: cls(*(list(args) + ["text"]), **kwargs), "str")
        else:
            t = d[lists[0]] if lists else None
            if t is not None and ref_decl.kind_of(t) == "listelem":
                conv = t.converter
                from ofxtools import Types as T
                # 'no value' is no list element (there is no such thing as an absent repeated element that is nevertheless a member)
                for nothing in (None, ""):
                    self.must_reject("empty-list-element-accepted", "kwargs", lambda n=nothing: cls(*(list(args) + [n]), **kwargs), f"{lists[0]}={nothing!r}")
                try:
                    e_empty = self.elem_of(*self.base(force=[lists[0]]))
                    for nothing in ("", None):
                        self.must_reject("empty-list-element-accepted", "etree", lambda n=nothing: self.from_etree(self.with_text(e_empty, self.tag(lists[0]), n)), f"{lists[0]}={nothing!r}")
                except Exception:
                    self.ctx.count("base_failed")
                bad = "ZZNOTATOKEN" if isinstance(conv, T.OneOf) else ("x" * (conv.length + 1) if isinstance(conv, T.String) and conv.length else ("abc" if isinstance(conv, T.Integer) else None))
                if bad is not None:
                    self.must_reject("invalid-list-element-accepted", "kwargs", lambda: cls(*(list(args) + [bad]), **kwargs), lists[0])
                    try:
                        elem = self.elem_of(*self.base(force=[lists[0]]))
                        self.must_reject("invalid-list-element-accepted", "etree", lambda: self.from_etree(self.with_text(elem, self.tag(lists[0]), bad)), lists[0])
                    except Exception:
                        self.ctx.count("base_failed")
        # unknown keyword / list attribute passed as keyword
        self.must_reject("unknown-keyword-accepted", "kwargs", lambda: cls(*args, **dict(kwargs, zznosuchchild="1")), "zznosuchchild")
        if lists:
            self.must_reject("list-attr-as-keyword-accepted", "kwargs", lambda: cls(*args, **dict(kwargs, **{lists[0]: "1"})), lists[0])
        # sequence: a repeated child re-appearing after a later non-repeated sibling (etree)
        order = [k for k, t in d.items() if ref_decl.kind_of(t) != "unsupported"]
        for L in lists:
            later = [k for k in order[order.index(L) + 1:] if ref_decl.kind_of(d[k]) in ("elem", "sub")]
            opt, req = ref_decl.mutexes_in_force(cls)
            later = [k for k in later if not any(k in g and L in g for g in opt + req)]
            if not later:
                continue
            try:
                a2, k2 = self.base(force=[L, later[0]])
                inst = cls(*a2, **k2)
                elem = inst.to_etree()
                tl, ts = self.tag(L), self.tag(later[0])
                tags = [c.tag for c in elem]
                if tl not in tags or ts not in tags:
                    continue
                e2 = copy.deepcopy(elem)
                e2.insert(tags.index(ts) + 1, copy.deepcopy(e2[tags.index(tl)]))
                self.must_reject("repeated-child-after-later-sibling-accepted", "etree", lambda: self.from_etree(e2), f"{L}..{later[0]}..{L}")
            except Exception:
                self.ctx.count("base_failed")
            break


def sonrq_credentials(p):
    """SONRQ's own group rule (not a declared mutex): <USERID> and <USERPASS>, or <USERKEY>, but not both and not neither."""
    try:
        args, kwargs = p.base()
    except Exception:
        p.ctx.count("base_failed")
        return
    base = {k: v for k, v in kwargs.items() if k not in ("userid", "userpass", "userkey")}
    p.must_accept("sonrq-credentials", "kwargs", lambda: p.cls(*args, **dict(base, userid="u", userpass="p")), "userid+userpass")
    p.must_accept("sonrq-credentials", "kwargs", lambda: p.cls(*args, **dict(base, userkey="k")), "userkey")
    for bad, label in (({}, "none"), ({"userid": "u"}, "userid-only"), ({"userpass": "p"}, "userpass-only"),
                       ({"userid": "u", "userpass": "p", "userkey": "k"}, "all-three"), ({"userid": "u", "userkey": "k"}, "userid+userkey")):
        p.must_reject("sonrq-credentials-rule-not-in-force", "kwargs", lambda bad=bad: p.cls(*args, **dict(base, **bad)), label)


def acctinfo_members(p):
    """ACCTINFO holds at most ONE account-information aggregate of each kind (its members are repeated children by declaration,
    the single occurrence is ACCTINFO's own rule): a second one of a kind is refused wherever it stands - next to the first or not."""
    import xml.etree.ElementTree as ET
    from ofxtools.models.base import Aggregate

    O = instances.Opts
    kinds = [k for k, t in ref_decl.decl(p.cls).items() if ref_decl.kind_of(t) == "listagg"]
    if len(kinds) < 3:
        return
    try:
        _, kwargs = p.base()
        m = {k: [instances.child_value(p.cls, k, p.rng, O()) for _ in range(2)] for k in kinds[:3]}
    except Exception:
        p.ctx.count("base_failed")
        return
    a, b, c = kinds[:3]
    p.must_accept("acctinfo-one-of-each", "kwargs", lambda: p.cls(m[a][0], m[b][0], m[c][0], **kwargs), "a,b,c")
    for label, seq in (("a,a", [m[a][0], m[a][1]]), ("a,b,a", [m[a][0], m[b][0], m[a][1]]), ("b,c,b", [m[b][0], m[c][0], m[b][1]]),
                       ("a,b,c,a", [m[a][0], m[b][0], m[c][0], m[a][1]]), ("a,b,a,b", [m[a][0], m[b][0], m[a][1], m[b][1]])):
        p.must_reject("acctinfo-second-of-a-kind-accepted", "kwargs", lambda seq=seq: p.cls(*seq, **kwargs), label)
        try:
            elem = p.cls(m[a][0], **kwargs).to_etree()
            for x in list(elem):
                if x.tag.lower() in kinds:
                    elem.remove(x)
            for x in seq:
                elem.append(x.to_etree())
        except Exception:
            p.ctx.count("base_failed")
            continue
        p.must_reject("acctinfo-second-of-a-kind-accepted", "etree", lambda elem=elem: p.from_etree(elem), label)


def run_class(ctx, name, cls, seedstr):
    p = Probe(ctx, name, cls, seedstr)
    if name == "SONRQ":
        sonrq_credentials(p)
    if name == "ACCTINFO":
        acctinfo_members(p)
    p.per_child()
    p.groups()
    p.order_and_duplicates()
    p.order_with_unsupported()
    p.order_across_list_runs()
    p.list_members()


def run_shard(ctx):
    online.set_ctx(ctx)
    online.install_init_monitor()
    classes = list(ref_decl.all_classes().items())
    if ctx.shard % 2 == 1:
        # every other shard: the non-exported base classes are used (class-level API, instances) before any model class is
        ctx.count("base_classes_used_first", ref_decl.touch_base_classes())
        ctx.case_extra = {"base_first": True}
    reps = 2 if ctx.tier == "quick" else 40
    for ci, (name, cls) in enumerate(classes):
        if ci % ctx.nshards != ctx.shard:
            continue
        if ctx.time_left() < 10:
            ctx.inconclusive_because(f"time budget exhausted before class {name}")
            break
        ctx.count("classes")
        for r in range(reps):
            run_class(ctx, name, cls, f"C04/{ctx.seed}/{name}/{r}")
        if ci % 45 == 0:
            d = ref_decl.decl(cls)
            ctx.sample({"cls": name, "constraints": {"required": [k for k, t in d.items() if getattr(t, "required", False)][:8],
                                                    "groups": [list(map(list, g)) for g in ref_decl.mutexes_declared_anywhere(cls)]}})
    # random valid instances too: the post-condition monitor must stay silent on them
    rng = ctx.rng
    for ci, (name, cls) in enumerate(classes):
        if ci % ctx.nshards != ctx.shard:
            continue
        try:
            instances.build(cls, random.Random(f"C04v/{ctx.seed}/{name}"), "random")
        except instances.ConstructorRejected as e:
            ctx.violation(f"valid-candidate-rejected/{name}", str(e)[:300], {"cls": name, "seedstr": f"C04v/{ctx.seed}/{name}", "what": "valid", "route": "kwargs", "detail": ""})
    online.flush(ctx)
    if ctx.tier == "thorough" and ctx.shard == 0:
        # second, independent workload: the repository's own 3592 tests, each an execution the monitor watches
        from vf.core import suite_under_monitors
        suite_under_monitors.run(ctx, "suite", ('instance-exists-violating',))


def replay(ctx, case):
    online.set_ctx(ctx)
    online.install_init_monitor()
    if case.get("op") == "init-postcondition":
        ctx.note("init-postcondition violations are replayed by re-running the workload of the class")
    name = case["cls"]
    if case.get("base_first"):
        ref_decl.touch_base_classes()
    run_class(ctx, name, ref_decl.all_classes()[name], case.get("seedstr", f"C04/replay/{name}"))
    online.flush(ctx)
