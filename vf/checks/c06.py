"""C06 - a composed request says exactly what the caller asked, in every configuration.

Monitor: the bytes returned by request_*(..., dryrun=True) are read by the
independent readers (ref_request: ref_header + ref_sgml + ref_types) and
compared field by field with what the caller asked; the library's own reader
must accept them too.
"""
import datetime
import io
import random

from vf.gen import values
from vf.oracles import ref_request, ref_sgml
from vf.oracles import ref_types as R

PROP = "C06"
LEVEL = "exploration"
TECHNIQUE = "differential runtime monitor on OFXClient.request_*(dryrun=True): request bytes read by independent header/body/type readers and compared with the caller's arguments; library reader must also accept"
RULE = ("client configurations: versions {102,103,151,160,200,201,202,203,210,211,220} x prettyprint x close_elements (v1) x presence of "
        "org/fid/clientuid/appid/appver/language/bankid/brokerid x request multisets of size 0-8 in any order over {StmtRq, CcStmtRq, InvStmtRq, "
        "StmtEndRq, CcStmtEndRq} with account ids and credentials over the printable range incl. & < > quotes and non-ASCII, dates with any "
        "UTC offset, all flag combinations; plus account-info, profile and tax requests; 2xx + no end tags must be refused. "
        "A case = (configuration, request list); non-trivial = at least the sign-on was compared")
ASSUMPTIONS = ["ref_request.py reads the request independently (ref_header/ref_sgml/ref_types, self-tested)",
               "investment request with inctran=False: INCTRAN absent or INCLUDE=N both accepted; dates compared as instants within 500 us (ms rounding)",
               "order is judged within each request kind only"]
LEVEL_TEXT = ("Exploration: thousands of (configuration x request multiset) compositions per run, each read back by independent readers and "
              "compared with the arguments; configuration dimensions are covered pairwise-or-better by random sampling with every version, both "
              "formatting flags and every request kind present in every run.")
LEVEL_NOTE = "Trusts ref_request.py; uuid/dtclient are the library's own (TRNUIDs only checked for distinctness, DTCLIENT for plausibility)."
DESIGN_REF = "DESIGN.md §3 C06"
MIN_COUNTERS = {"quick": {"compositions": 3000, "requests_compared": 9000, "versions_seen": 11, "refusals_2xx_unclosed": 50},
                "thorough": {"compositions": 160000, "requests_compared": 400000, "versions_seen": 11, "refusals_2xx_unclosed": 300}}

VERSIONS = [102, 103, 151, 160, 200, 201, 202, 203, 210, 211, 220]
ACCTTYPES = ["CHECKING", "SAVINGS", "MONEYMRKT", "CREDITLINE", "CD"]
LANGS = ["ENG", "FRA", "DEU", "SPA", "JPN"]
_EPOCH = datetime.datetime(1970, 1, 1, tzinfo=datetime.timezone.utc)


def shards(tier):
    return 16


def timeout(tier):
    return 900 if tier == "quick" else 5400


def us(dt):
    return None if dt is None else (dt - _EPOCH) // datetime.timedelta(microseconds=1)


def caller_str(rng, maxlen, entity_ok):
    """A string the caller passes.  entity_ok=False keeps out sequences that look like the six OFX entities."""
    for _ in range(40):
        s = values.gen_str(rng, maxlen)
        looks = R.decode_chardata(s) != s
        if looks and not entity_ok:
            continue
        if s.strip() == s and s:
            return s
    return "x1"


def gen_dt(rng):
    return rng.choice([None, values.gen_datetime(rng), values.gen_datetime(rng)])


def gen_config(rng):
    version = rng.choice(VERSIONS)
    cfg = {"version": version, "prettyprint": rng.choice([True, False, None]), "close_elements": None}
    if version < 200:
        cfg["close_elements"] = rng.choice([True, False, None])
    ent = rng.random() < 0.08
    cfg["_entity_strings"] = ent
    cfg["userid"] = caller_str(rng, 32, ent)
    if rng.random() < 0.7:
        # half of the time an ORG from a tiny pool, so that several client instances in one process share an ORG
        # while differing in FID (or having none)
        cfg["org"] = rng.choice(["POOLORG1", "POOLORG2", "Pool Org & Co"]) if rng.random() < 0.5 else caller_str(rng, 32, ent)
        if rng.random() < 0.7:
            cfg["fid"] = caller_str(rng, 32, ent)
    elif rng.random() < 0.3:
        cfg["fid"] = "lonelyfid"  # fid without org: no FI at all
    if rng.random() < 0.6:
        cfg["clientuid"] = caller_str(rng, 36, ent)
    if rng.random() < 0.5:
        cfg["appid"] = caller_str(rng, 5, False)
        cfg["appver"] = caller_str(rng, 4, False)
    if rng.random() < 0.5:
        from ofxtools.models.i18n import LANG_CODES
        cfg["language"] = rng.choice(sorted(LANG_CODES))
    cfg["bankid"] = caller_str(rng, 9, ent)
    cfg["brokerid"] = caller_str(rng, 22, ent)
    return cfg


def gen_requests(rng, ent):
    n = rng.choice([0, 1, 1, 2, 3, 4, 6, 8])
    out = []
    for _ in range(n):
        kind = rng.choice(["stmt", "ccstmt", "invstmt", "stmtend", "ccstmtend"])
        r = {"kind": kind, "acctid": caller_str(rng, 22, ent), "dtstart": gen_dt(rng), "dtend": gen_dt(rng)}
        if rng.random() < 0.08:
            # an account number longer than the 22 characters OFX allows: the library warns and sends it whole (the identifiers of two
            # such accounts agree in their first 22 characters)
            r["acctid"] = ("LONG-ACCT-0123456789-AB" + r["acctid"])[: rng.randint(23, 40)].rstrip()
        if kind in ("stmt", "stmtend"):
            r["accttype"] = rng.choice(ACCTTYPES)
        if kind in ("stmt", "ccstmt", "invstmt"):
            r["inctran"] = rng.choice([True, True, False])
        if kind == "invstmt":
            r.update(dtasof=gen_dt(rng), incoo=rng.choice([True, False]), incpos=rng.choice([True, False]), incbal=rng.choice([True, False]))
        out.append(r)
        if rng.random() < 0.2:
            # a multiset: the very same request once more (right away or later) - still one wrapper each, each with its own TRNUID
            out.insert(rng.randint(0, len(out)), dict(r))
    return out


def to_lib_request(C, r):
    k = r["kind"]
    if k == "stmt":
        return C.StmtRq(acctid=r["acctid"], accttype=r["accttype"], dtstart=r["dtstart"], dtend=r["dtend"], inctran=r["inctran"])
    if k == "ccstmt":
        return C.CcStmtRq(acctid=r["acctid"], dtstart=r["dtstart"], dtend=r["dtend"], inctran=r["inctran"])
    if k == "invstmt":
        return C.InvStmtRq(acctid=r["acctid"], dtstart=r["dtstart"], dtend=r["dtend"], dtasof=r["dtasof"], inctran=r["inctran"], incoo=r["incoo"], incpos=r["incpos"], incbal=r["incbal"])
    if k == "stmtend":
        return C.StmtEndRq(acctid=r["acctid"], accttype=r["accttype"], dtstart=r["dtstart"], dtend=r["dtend"])
    return C.CcStmtEndRq(acctid=r["acctid"], dtstart=r["dtstart"], dtend=r["dtend"])


def close(a, b):
    if a is None or b is None:
        return a is b
    return abs(a - b) <= 500


class Judge:
    def __init__(self, ctx, case):
        self.ctx, self.case = ctx, case

    def field(self, where, name, got, want):
        if got == want:
            return True
        if isinstance(want, str) and isinstance(got, str) and R.decode_chardata(want) == got:
            self.ctx.violation("caller-string-entity-decoded", f"{where}.{name}: caller supplied {want!r}, request says {got!r} (decoded once more than written)", self.case)
        else:
            self.ctx.violation(f"field-differs/{where.split('[')[0]}.{name}", f"{where}.{name}: request says {got!r}, caller asked {want!r}", self.case)
        return False


def check_common(ctx, J, desc, cfg, password, anonymous=False):
    from ofxtools.Client import AUTH_PLACEHOLDER, OFXClient

    v = cfg["version"]
    want_kind = "v1" if v < 200 else "v2"
    J.field("header", "kind", desc["header_kind"], want_kind)
    J.field("header", "version", desc["version"], v)
    so = desc["signon"]
    J.field("sonrq", "userid", so["userid"], AUTH_PLACEHOLDER if anonymous else cfg["userid"])
    J.field("sonrq", "userpass", so["userpass"], AUTH_PLACEHOLDER if anonymous else password)
    J.field("sonrq", "language", so["language"], cfg.get("language", OFXClient.language))
    J.field("sonrq", "appid", so["appid"], cfg.get("appid", OFXClient.appid))
    J.field("sonrq", "appver", so["appver"], cfg.get("appver", OFXClient.appver))
    want_fi = {"org": cfg["org"], "fid": cfg.get("fid")} if cfg.get("org") else None
    if (so["fi"] is None) != (want_fi is None):
        ctx.violation("field-differs/sonrq.fi-presence", f"FI present={so['fi'] is not None}, org configured={want_fi is not None}", J.case)
    elif want_fi:
        J.field("sonrq.fi", "org", so["fi"]["org"], want_fi["org"])
        J.field("sonrq.fi", "fid", so["fi"]["fid"], want_fi["fid"])
    want_cuid = cfg.get("clientuid") if v >= 103 else None
    if (so["clientuid"] is None) != (want_cuid is None):
        ctx.violation("field-differs/sonrq.clientuid-presence", f"CLIENTUID {so['clientuid']!r} for version {v}, configured {cfg.get('clientuid')!r}", J.case)
    elif want_cuid is not None:
        J.field("sonrq", "clientuid", so["clientuid"], want_cuid)
    if so["dtclient"] is None:
        ctx.violation("field-differs/sonrq.dtclient-missing", "no DTCLIENT", J.case)
    if desc["extra"]:
        ctx.violation("extra-content", f"request contains content nobody asked for: {desc['extra'][:5]}", J.case)
    uids = [r["trnuid"] for r in desc["requests"]]
    if len(set(uids)) != len(uids):
        ctx.violation("trnuid-not-distinct", f"TRNUIDs {uids}", J.case)


def library_reads(ctx, data, case):
    from ofxtools.Parser import OFXTree

    try:
        t = OFXTree()
        t.parse(io.BytesIO(data))
        return t.convert()
    except Exception as e:
        ctx.violation(f"library-rejects-own-request/{type(e).__name__}", f"OFXTree cannot read the composed request: {e!r}", case)
        return None


def earlier_calls(ctx, client, rng):
    """The judged request is not the client's first: earlier calls with per-call overrides (another version, formatting), some of
    them refused (2xx without end tags) or failing in transport, must leave nothing behind on the client."""
    if rng.random() < 0.55:
        return
    for _ in range(rng.randint(1, 2)):
        v = rng.choice([102, 103, 151, 160, 200, 203, 211, 220])
        kw = {"version": v, "prettyprint": rng.choice([True, False]), "close_elements": rng.choice([True, False])}
        ctx.count("earlier_calls_with_overrides")
        try:
            if rng.random() < 0.7:
                client.request_profile(dryrun=True, **kw).read()
            else:
                # not a dry run: nothing listens at this address (the transport error comes after the overrides were applied)
                client.request_profile(timeout=0.05, url="http://127.0.0.1:9/ofx", **kw).read()
        except Exception:  # noqa: refused or failed - not judged here
            ctx.count("earlier_calls_refused_or_failed")


def one_statements(ctx, rng, idx):
    import ofxtools.Client as C

    cfg = gen_config(rng)
    reqs = gen_requests(rng, cfg["_entity_strings"])
    password = caller_str(rng, 40, cfg["_entity_strings"])
    case = {"op": "statements", "cfg": {k: v for k, v in cfg.items()}, "requests": [{k: (repr(v) if isinstance(v, datetime.datetime) else v) for k, v in r.items()} for r in reqs],
            "password": password, "replay_seed": idx}
    ctx.ev()
    ctx.count("compositions")
    ctx.add("versions", cfg["version"])
    kw = {k: v for k, v in cfg.items() if not k.startswith("_") and v is not None}
    try:
        client = C.OFXClient("https://example.invalid/ofx", **kw)
        earlier_calls(ctx, client, rng)
        data = client.request_statements(password, *[to_lib_request(C, r) for r in reqs], dryrun=True).read()
    except Exception as e:
        ctx.violation(f"compose-raises/{type(e).__name__}", f"request_statements raised {e!r} for cfg={kw}", case)
        return
    J = Judge(ctx, case)
    try:
        desc = ref_request.describe(data)
    except (ref_request.RequestError, ref_sgml.RefError, R.Reject, R.Unspecified, Exception) as e:
        fam = "unclosed" if cfg.get("close_elements") is False else "closed"
        ctx.violation(f"request-not-well-formed/{fam}/{type(e).__name__}", f"independent reader cannot read the request: {e!r}: ...{data[-200:]!r}", case)
        return
    check_common(ctx, J, desc, cfg, password)
    # one wrapper per request, per kind in request order
    for kind in ("stmt", "ccstmt", "invstmt", "stmtend", "ccstmtend"):
        want = [r for r in reqs if r["kind"] == kind]
        got = [r for r in desc["requests"] if r["kind"] == kind]
        ctx.count("requests_compared", len(want))
        if len(got) != len(want):
            ctx.violation(f"wrapper-count/{kind}", f"{len(want)} {kind} requests asked, {len(got)} wrappers in the request", case)
            continue
        for i, (g, w) in enumerate(zip(got, want)):
            where = f"{kind}[{i}]"
            J.field(where, "acctid", g["acctid"], w["acctid"])
            if kind in ("stmt", "stmtend"):
                J.field(where, "bankid", g["bankid"], cfg["bankid"])
                J.field(where, "accttype", g["accttype"], w["accttype"])
            if kind == "invstmt":
                J.field(where, "brokerid", g["brokerid"], cfg["brokerid"])
                for f in ("incoo", "incpos", "incbal"):
                    J.field(where, f, g[f], w[f])
                if not close(g["dtasof"], us(w["dtasof"])):
                    ctx.violation("field-differs/invstmt.dtasof", f"{where}: DTASOF {g['dtasof']} vs asked {us(w['dtasof'])}", case)
            if kind in ("stmt", "ccstmt", "invstmt"):
                if kind == "invstmt" and not w["inctran"]:
                    if g["inctran"] not in (None, False):
                        ctx.violation("field-differs/invstmt.inctran", f"{where}: inctran=False asked, INCLUDE={g['inctran']}", case)
                    continue
                J.field(where, "inctran", g["inctran"], w["inctran"])
            for f in ("dtstart", "dtend"):
                if not close(g[f], us(w[f])):
                    ctx.violation(f"field-differs/{kind}.{f}", f"{where}: {f} {g[f]} vs asked {us(w[f])} us", case)
    other = [r for r in desc["requests"] if r["kind"] not in ("stmt", "ccstmt", "invstmt", "stmtend", "ccstmtend")]
    if other:
        ctx.violation("extra-content", f"unasked wrappers {[r['kind'] for r in other]}", case)
    m = library_reads(ctx, data, case)
    ctx.distinct(("st", idx))
    return data


def one_other(ctx, rng, idx):
    import ofxtools.Client as C

    cfg = gen_config(rng)
    password = caller_str(rng, 40, cfg["_entity_strings"])
    kw = {k: v for k, v in cfg.items() if not k.startswith("_") and v is not None}
    which = rng.choice(["acctinfo", "profile", "tax"])
    case = {"op": which, "cfg": cfg, "password": password, "replay_seed": idx}
    ctx.ev()
    ctx.count("compositions")
    ctx.add("versions", cfg["version"])
    try:
        client = C.OFXClient("https://example.invalid/ofx", **kw)
        earlier_calls(ctx, client, rng)
        if which == "acctinfo":
            dt = values.gen_datetime(rng)
            data = client.request_accounts(password, dt, dryrun=True).read()
        elif which == "profile":
            data = client.request_profile(dryrun=True).read()
        else:
            years = [str(rng.randint(1990, 2030)) for _ in range(rng.randint(0, 3))]  # none at all is a request, too
            acctnum = rng.choice([None, caller_str(rng, 32, cfg["_entity_strings"])])
            recid = rng.choice([None, caller_str(rng, 32, cfg["_entity_strings"])])
            data = client.request_tax1099(password, *years, acctnum=acctnum, recid=recid, dryrun=True).read()
    except Exception as e:
        ctx.violation(f"compose-raises/{type(e).__name__}", f"{which} request raised {e!r}", case)
        return
    J = Judge(ctx, case)
    try:
        desc = ref_request.describe(data)
    except Exception as e:
        fam = "unclosed" if cfg.get("close_elements") is False else "closed"
        ctx.violation(f"request-not-well-formed/{fam}/{type(e).__name__}", f"independent reader cannot read the {which} request: {e!r}", case)
        return
    check_common(ctx, J, desc, cfg, password, anonymous=(which == "profile"))
    ctx.count("requests_compared")
    rs = desc["requests"]
    if len(rs) != 1 or rs[0]["kind"] != {"acctinfo": "acctinfo", "profile": "profile", "tax": "tax1099"}[which]:
        ctx.violation(f"wrapper-count/{which}", f"wrappers {[r['kind'] for r in rs]}", case)
        return
    r = rs[0]
    if which == "acctinfo" and not close(r["dtacctup"], us(dt)):
        ctx.violation("field-differs/acctinfo.dtacctup", f"DTACCTUP {r['dtacctup']} vs asked {us(dt)}", case)
    if which == "tax":
        J.field("tax1099", "acctnum", r["acctnum"], acctnum)
        J.field("tax1099", "recid", r["recid"], recid)
        J.field("tax1099", "years", r["years"], [int(y) for y in years])
    library_reads(ctx, data, case)
    ctx.distinct((which, idx))


def refusals(ctx, rng):
    import ofxtools.Client as C

    for v in [200, 201, 202, 203, 210, 211, 220]:
        for pretty in (True, False):
            ctx.ev()
            ctx.count("refusals_2xx_unclosed")
            case = {"op": "refuse", "version": v, "pretty": pretty}
            try:
                C.OFXClient("https://x.invalid", version=v, close_elements=False, prettyprint=pretty)
                ctx.violation("2xx-unclosed-accepted/constructor", f"OFXClient(version={v}, close_elements=False) accepted", case)
            except ValueError:
                pass
            c = C.OFXClient("https://x.invalid", version=rng.choice([102, 103, 151, 160, v]), userid="u")
            for call in ("profile", "serialize"):
                ctx.ev()
                ctx.count("refusals_2xx_unclosed")
                try:
                    if call == "profile":
                        out = c.request_profile(version=v, close_elements=False, prettyprint=pretty, dryrun=True).read()
                    else:
                        from ofxtools.models import SONRQ, SIGNONMSGSRQV1, OFX
                        ofx = OFX(signonmsgsrqv1=c.signon("pw"))
                        out = c.serialize(ofx, version=v, close_elements=False, prettyprint=pretty)
                    ctx.violation(f"2xx-unclosed-accepted/{call}", f"version {v} written without end tags: {out[-80:]!r}", case)
                except ValueError:
                    pass


def run_shard(ctx):
    for st in (ref_sgml.selftest, R.selftest):
        st()
    n = (4200 if ctx.tier == "quick" else 240000) // ctx.nshards
    for i in range(n):
        idx = f"{ctx.seed}/{ctx.shard}/{i}"
        rng = random.Random("C06/" + idx)
        if i % 5 == 4:
            one_other(ctx, rng, idx)
        else:
            data = one_statements(ctx, rng, idx)
            if data and i % 120 == 0:
                ctx.sample({"request_tail": data[-500:].decode("utf_8", "replace")})
    refusals(ctx, ctx.rng)
    ctx.count("versions_seen", 0)


def finalize(merged, tier):
    merged["counters"]["versions_seen"] = len(merged["sets"].get("versions", ()))


def replay(ctx, case):
    idx = case["replay_seed"]
    rng = random.Random("C06/" + idx)
    if case["op"] == "statements":
        one_statements(ctx, rng, idx)
    elif case["op"] == "refuse":
        refusals(ctx, ctx.rng)
    else:
        one_other(ctx, rng, idx)
