"""C12 - headers round-trip for every supported version; invalid headers refused.

Monitor on make_header / str(header) / parse_header / OFXHeaderV1 / OFXHeaderV2:
generated header must be of the kind the version calls for and parse back to
equal fields (cross-checked by the independent ref_header reader); every
single-field corruption, omission and transposition must raise OFXHeaderError.
"""
import io
import re

from vf.oracles import ref_header

PROP = "C12"
LEVEL = "exploration"
TECHNIQUE = "runtime monitor on make_header/str/parse_header and the header constructors: round trip vs independent header reader; per-field exhaustive corruption / omission / transposition must raise OFXHeaderError"
RULE = ("versions: every three-digit 1xx version and 200,201,202,203,210,211,220 x security {NONE,TYPE1,None} x UID pairs over "
        "[A-Za-z0-9_-]{1,36} (lengths 1, 36 and random; each character class); corruptions applied one at a time to the generated "
        "header text, exhaustively per field: unknown DATA/SECURITY/ENCODING/CHARSET/COMPRESSION token, OFXHEADER of the other kind, "
        "non-numeric (letters, underscore, sign, exponent, hex, blank) / 4-digit / unsupported-2xx VERSION, each v1 corruption also inside every ENCODING x CHARSET pair with either SECURITY and real UIDs, 37-character UID, each mandatory field omitted, each adjacent pair transposed; "
        "make_header on 0-99, 300-999 and non-numeric versions; direct constructor calls with each bad field. "
        "A case = (operation, version, arguments or corrupted text)")
ASSUMPTIONS = ["ref_header.py reads headers independently (self-tested)",
               "UNSPECIFIED, not judged: omission of COMPRESSION (deliberately tolerated); flat headers whose VERSION has fewer than three digits or is a three-digit number outside 1xx; garbage before OFXHEADER on the same line"]
LEVEL_TEXT = ("Exploration, exhaustive per field: every supported version and every 1xx version is generated, printed, re-parsed and compared; "
              "every field is corrupted, omitted and transposed once per version class. The header code is two regexes and nine validators, so a per-field sweep reaches every validator in both directions.")
LEVEL_NOTE = "Trusts ref_header.py; only the urllib-free header layer is exercised (bodies are C05's business)."
DESIGN_REF = "DESIGN.md §3 C12"
EXHAUSTIVE = {"quick": "all 100 1xx versions + 7 supported 2xx versions; every single-field corruption/omission/transposition per header kind",
              "thorough": "same, x many UID pairs"}
MIN_COUNTERS = {"quick": {"roundtrips": 600, "corruptions": 15000, "corruptions_in_other_valid_headers": 12000, "make_header_refusals": 900, "constructor_refusals": 20},
                "thorough": {"roundtrips": 20000, "corruptions": 200000, "corruptions_in_other_valid_headers": 150000, "make_header_refusals": 900, "constructor_refusals": 20}}

V2_SUPPORTED = [200, 201, 202, 203, 210, 211, 220]
UIDCHARS = "ABCDEFGHIJKLMNOPQRSTUVWXYZabcdefghijklmnopqrstuvwxyz0123456789_-"
BODY = "<OFX><SIGNONMSGSRSV1></SIGNONMSGSRSV1></OFX>"


def shards(tier):
    return 8


def timeout(tier):
    return 900 if tier == "quick" else 5400


def gen_uid(rng):
    r = rng.random()
    if r < 0.15:
        return None
    if r < 0.3:
        return "".join(rng.choice(UIDCHARS) for _ in range(36))
    if r < 0.4:
        return rng.choice(UIDCHARS)
    if r < 0.5:
        # incl. identifiers that spell a header keyword or another field's token (a scanner looking for keywords must not trip)
        return rng.choice(["NONE", "0", "-", "_", "a-b_c", "550E8400-E29B-41D4-A716-446655440000", "NEWFILEUID", "OLDFILEUID", "xNEWFILEUIDx", "OFXHEADER",
                           "VERSION", "SECURITY", "DATA", "ENCODING", "CHARSET", "COMPRESSION", "USASCII", "TYPE1", "OFXSGML", "100", "200", "OFX", "xml"])
    return "".join(rng.choice(UIDCHARS) for _ in range(rng.randint(1, 36)))


def fields_of(h):
    if type(h).__name__ == "OFXHeaderV1":
        names = ["ofxheader", "data", "version", "security", "encoding", "charset", "compression", "oldfileuid", "newfileuid"]
    else:
        names = ["ofxheader", "version", "security", "oldfileuid", "newfileuid"]
    return {n: getattr(h, n) for n in names}


def roundtrip(ctx, H, version, security, old, new, vform):
    ctx.ev()
    ctx.count("roundtrips")
    case = {"op": "roundtrip", "version": version, "vform": vform, "security": security, "old": old, "new": new}
    v = str(version) if vform == "str" else version
    try:
        h = H.make_header(v, security=security, oldfileuid=old, newfileuid=new)
        text = str(h)
    except Exception as e:
        ctx.violation("make_header/valid-refused", f"make_header({v!r}, {security!r}, {old!r}, {new!r}) raised {e!r}", case)
        return
    major = version // 100
    kind_ok = (major == 1 and text.startswith("OFXHEADER:100") and "<?" not in text and type(h).__name__ == "OFXHeaderV1") or (
        major == 2 and text.startswith("<?xml") and "<?OFX " in text and "OFXHEADER:" not in text and type(h).__name__ == "OFXHeaderV2")
    if not kind_ok:
        ctx.violation("make_header/wrong-kind", f"version {version}: header is {type(h).__name__}: {text[:60]!r}", case)
        return
    want = {"version": version, "security": security or "NONE", "oldfileuid": old or "NONE", "newfileuid": new or "NONE",
            "ofxheader": 100 * major}
    data = (text + BODY).encode("ascii")
    # independent reading of what was printed
    try:
        kind, rf, off = ref_header.parse(data)
    except ref_header.HeaderError as e:
        ctx.violation("str/unreadable-by-reference", f"str(make_header({version})) = {text!r}: {e}", case)
        return
    printed = {"version": int(rf["VERSION"]), "security": rf["SECURITY"], "oldfileuid": rf["OLDFILEUID"], "newfileuid": rf["NEWFILEUID"], "ofxheader": int(rf["OFXHEADER"])}
    if printed != want or kind != f"v{major}":
        ctx.violation("str/wrong-fields-printed", f"printed {printed} for requested {want}", case)
        return
    try:
        h2, body = H.parse_header(io.BytesIO(data))
    except Exception as e:
        ctx.violation("parse_header/own-header-rejected", f"parse_header(str(make_header({version}, {security!r}, {old!r}, {new!r}))) raised {e!r}", case)
        return
    if type(h2) is not type(h) or fields_of(h2) != fields_of(h):
        ctx.violation("parse_header/fields-differ", f"{fields_of(h)} -> {text!r} -> {fields_of(h2)}", case)
    elif any(fields_of(h2)[k] != val for k, val in want.items()):
        ctx.violation("parse_header/fields-differ-from-request", f"requested {want}, parsed {fields_of(h2)}", case)
    elif body.strip() != BODY:
        ctx.violation("parse_header/body-differs", f"body {body!r}", case)
    return text


def v1_lines(version="102", **over):
    f = [["OFXHEADER", "100"], ["DATA", "OFXSGML"], ["VERSION", str(version)], ["SECURITY", "NONE"], ["ENCODING", "USASCII"], ["CHARSET", "1252"],
         ["COMPRESSION", "NONE"], ["OLDFILEUID", "NONE"], ["NEWFILEUID", "NONE"]]
    for k, v in over.items():
        for row in f:
            if row[0] == k:
                row[1] = v
    return f


def v1_text(rows, sep="\r\n"):
    return sep.join(f"{k}:{v}" for k, v in rows) + sep * 2


def v2_attrs(version="203", **over):
    f = [["OFXHEADER", "200"], ["VERSION", str(version)], ["SECURITY", "NONE"], ["OLDFILEUID", "NONE"], ["NEWFILEUID", "NONE"]]
    for k, v in over.items():
        for row in f:
            if row[0] == k:
                row[1] = v
    return f


def v2_text(rows, q='"', sep="\r\n"):
    return '<?xml version="1.0" encoding="UTF-8" standalone="no"?>' + sep + "<?OFX " + " ".join(f"{k}={q}{v}{q}" for k, v in rows) + "?>" + sep


def must_refuse(ctx, H, text, what, kind, enc="ascii"):
    ctx.ev()
    ctx.count("corruptions")
    strict_warnings = ctx.evaluations % 3 == 0 if ctx.replay_case is None else bool(ctx.replay_case["case"].get("warnings_are_errors"))
    case = {"op": "corrupt", "text": text, "what": what, "kind": kind, "enc": enc, "warnings_are_errors": strict_warnings}
    try:
        import warnings
        with warnings.catch_warnings():
            if strict_warnings:
                # an application (or a test runner) that turns warnings into errors: the refusal is still the header error
                warnings.simplefilter("error")
                ctx.count("corruptions_with_warnings_as_errors")
            h, body = H.parse_header(io.BytesIO((text + BODY).encode(enc)))
    except H.OFXHeaderError:
        return
    except Exception as e:
        ctx.violation(f"corrupt/{kind}/wrong-exception/{what.split('=')[0]}", f"{what}: raised {type(e).__name__}: {e} instead of OFXHeaderError for {text[:120]!r}", case)
        return
    ctx.violation(f"corrupt/{kind}/accepted/{what.split('=')[0]}", f"{what}: parse_header returned {fields_of(h)} for {text[:160]!r}", case)


def corruptions(ctx, H, rng, version1, version2):
    # the uncorrupted templates are read FIRST (and again at the end): a corrupted header must be refused on its own demerits, also
    # when the header it was derived from has just been accepted in this process
    for text in (v1_text(v1_lines(version1)), v1_text(v1_lines(version1), "\n"), v2_text(v2_attrs(version2)), v2_text(v2_attrs(version2), "'")):
        try:
            H.parse_header(io.BytesIO((text + BODY).encode("ascii")))
            (H.OFXHeaderV1 if text.startswith("OFXHEADER") else H.OFXHeaderV2).parse(text)
            ctx.count("templates_accepted_first")
        except Exception:  # noqa: judged at the end
            pass
    long37 = "".join(rng.choice(UIDCHARS) for _ in range(37))
    long60 = "u" * 60
    # ---- v1 ----
    for sep in ("\r\n", "\n"):
        bad_values = {
            # incl. tokens that are legal for a DIFFERENT field (a validator must not accept a neighbour's token)
            "DATA": ["OFXXML", "SGML", "OFXSGMLX", "NONE", "USASCII", "TYPE1"],
            "SECURITY": ["TYPE2", "NONEX", "type1", "USASCII", "OFXSGML", "UNICODE"],
            "ENCODING": ["UTF-16", "ASCII", "USASCI", "TYPE1", "NONE", "OFXSGML"],
            "CHARSET": ["1253", "UTF-8", "ISO-8859-2", "none", "USASCII", "TYPE1"],
            "COMPRESSION": ["GZIP", "ZIP", "OFXSGML", "TYPE1", "USASCII"],
            "OFXHEADER": ["200", "101", "1000", "abc", "0", "00", "000", "0100", "00100"],
            "VERSION": ["1O2", "abc", "1020", "10200", "1.2", "1_02", "10_2", "+102", "-102", "1e2", "0x66", "1 02", "102_", "0102", "00102", "000000102"],
            "OLDFILEUID": [long37, long60],
            "NEWFILEUID": [long37, long60],
        }
        # fragments and doublings of each field's legal tokens (a validator that tests containment instead of equality takes them)
        legal = {"DATA": ["OFXSGML"], "SECURITY": ["NONE", "TYPE1"], "ENCODING": ["USASCII", "UNICODE", "UTF-8"], "CHARSET": ["ISO-8859-1", "1252", "NONE"],
                 "COMPRESSION": ["NONE"], "OFXHEADER": ["100"]}
        for field, toks in legal.items():
            frags = set()
            for t in toks:
                frags.update({t[:-1], t[1:], t[1:-1], t[:3], t[-3:], t + t, t[0]})
            bad_values[field] = bad_values[field] + sorted(f for f in frags if f and f not in toks and re.fullmatch(r"[A-Za-z0-9-]+", f))
        for field, bads in bad_values.items():
            for bad in bads:
                must_refuse(ctx, H, v1_text(v1_lines(version1, **{field: bad}), sep), f"{field}={bad[:12]}", "v1")
                # the same corruption inside every other valid header: each ENCODING x CHARSET pair, either SECURITY, real UIDs
                for enc in ("USASCII", "UNICODE", "UTF-8"):
                    for cs in ("ISO-8859-1", "1252", "NONE"):
                        base = {"ENCODING": enc, "CHARSET": cs, "SECURITY": rng.choice(["NONE", "TYPE1"]),
                                "OLDFILEUID": gen_uid(rng) or "NONE", "NEWFILEUID": gen_uid(rng) or "NONE"}
                        base[field] = bad
                        ctx.count("corruptions_in_other_valid_headers")
                        must_refuse(ctx, H, v1_text(v1_lines(version1, **base), sep), f"{field}={bad[:12]}", "v1")
        rows = v1_lines(version1)
        for i, (k, v) in enumerate(rows):
            if k == "COMPRESSION":
                ctx.count("unspecified_skipped")
                continue
            must_refuse(ctx, H, v1_text(rows[:i] + rows[i + 1:], sep), f"omit={k}", "v1")
        for i in range(len(rows) - 1):
            sw = rows[:i] + [rows[i + 1], rows[i]] + rows[i + 2:]
            must_refuse(ctx, H, v1_text(sw, sep), f"transpose={rows[i][0]}", "v1")
    # ---- v2 ----
    for q in ('"', "'"):
        bad_values = {
            "OFXHEADER": ["100", "201", "abc", "0", "00", "0200", "00200"],
            "VERSION": ["204", "199", "221", "2030", "abc", "2O3", "20", "0", "2_03", "20_3", "+203", "-203", "2e2", "0xcb", "2 03", "203_", "2.03", "0203", "00203"],
            "SECURITY": ["TYPE2", "none", "USASCII", "OFXSGML"],
            "OLDFILEUID": [long37, long60],
            "NEWFILEUID": [long37, long60],
        }
        for field, bads in bad_values.items():
            for bad in bads:
                must_refuse(ctx, H, v2_text(v2_attrs(version2, **{field: bad}), q), f"{field}={bad[:12]}", "v2")
        rows = v2_attrs(version2)
        for i, (k, v) in enumerate(rows):
            must_refuse(ctx, H, v2_text(rows[:i] + rows[i + 1:], q), f"omit={k}", "v2")
        for i in range(len(rows) - 1):
            sw = rows[:i] + [rows[i + 1], rows[i]] + rows[i + 2:]
            must_refuse(ctx, H, v2_text(sw, q), f"transpose={rows[i][0]}", "v2")
    # a stray byte outside ASCII inside a token (a FILE with such a byte: read through parse_header as bytes)
    for field, val in v1_lines(version1)[:7]:
        for stray in ("\xe9", "\xa0", "\xff", "\x85"):
            for pos in (1, len(val) - 1):  # inside the token (a trailing NBSP/NEL reads as blank space: not judged)
                bad = val[:pos] + stray + val[pos:]
                ctx.count("stray_high_bytes")
                must_refuse(ctx, H, v1_text(v1_lines(version1, **{field: bad})), f"{field}=stray-byte-{ord(stray):02x}", "v1", enc="latin_1")
    # numbers written with digits that are not ASCII digits (through the string entry points; a file would have to be decoded first)
    for cls, text in ((H.OFXHeaderV1, v1_text(v1_lines(version1))), (H.OFXHeaderV2, v2_text(v2_attrs(version2)))):
        for field, val in (("VERSION", str(version1 if cls is H.OFXHeaderV1 else version2)), ("OFXHEADER", "100" if cls is H.OFXHeaderV1 else "200")):
            for base in (0x0660, 0xFF10):
                odd = "".join(chr(base + int(c)) for c in val)
                sep = ":" if cls is H.OFXHeaderV1 else '="'
                bad = text.replace(field + sep + val, field + sep + odd, 1)
                ctx.ev()
                ctx.count("corruptions")
                case = {"op": "corrupt-str", "text": bad, "what": f"{field}=non-ascii-digits", "kind": cls.__name__}
                try:
                    h, _ = cls.parse(bad)
                except H.OFXHeaderError:
                    continue
                except Exception as e:
                    ctx.violation(f"corrupt/{cls.__name__}/wrong-exception/{field}", f"{field} in non-ASCII digits: raised {type(e).__name__}: {e}", case)
                    continue
                ctx.violation(f"corrupt/{cls.__name__}/accepted/{field}-non-ascii-digits", f"{cls.__name__}.parse accepted {field}={odd!r}: {fields_of(h)}", case)
    # sanity: the uncorrupted templates are accepted (otherwise the corruption verdicts mean nothing)
    for text in (v1_text(v1_lines(version1)), v2_text(v2_attrs(version2)), v2_text(v2_attrs(version2), "'")):
        ctx.ev()
        try:
            H.parse_header(io.BytesIO((text + BODY).encode("ascii")))
            ctx.count("templates_accepted")
        except Exception as e:
            ctx.violation("template/valid-header-rejected", f"{text!r}: {e!r}", {"op": "template", "text": text})


def constructor_refusals(ctx, H):
    bad_v1 = [dict(version=102, data="NONE"), dict(version=102, security="USASCII"), dict(version=102, encoding="TYPE1"), dict(version=102, compression="OFXSGML"),
              dict(version=102, data="OFXXML"), dict(version=102, security="TYPE2"), dict(version=102, encoding="UTF-16"), dict(version=102, charset="1253"),
              dict(version=102, compression="GZIP"), dict(version=102, ofxheader=200), dict(version=1020), dict(version="abc"),
              dict(version=102, oldfileuid="x" * 37), dict(version=102, newfileuid="x" * 37)]
    bad_v2 = [dict(version=203, security="USASCII"), dict(version=204), dict(version=199), dict(version="abc"), dict(version=203, ofxheader=100), dict(version=203, security="TYPE2"),
              dict(version=203, oldfileuid="x" * 37), dict(version=203, newfileuid="x" * 37), dict(version=2030)]
    for cls, bads in ((H.OFXHeaderV1, bad_v1), (H.OFXHeaderV2, bad_v2)):
        for kw in bads:
            ctx.ev()
            ctx.count("constructor_refusals")
            case = {"op": "ctor", "cls": cls.__name__, "kwargs": {k: str(v) for k, v in kw.items()}, "raw": repr(kw)}
            try:
                h = cls(**kw)
            except H.OFXHeaderError:
                continue
            except Exception as e:
                ctx.violation(f"ctor/{cls.__name__}/wrong-exception", f"{cls.__name__}(**{kw}) raised {type(e).__name__}: {e}", case)
                continue
            ctx.violation(f"ctor/{cls.__name__}/accepted", f"{cls.__name__}(**{kw}) -> {fields_of(h)}", case)


def run_shard(ctx):
    try:
        ref_header.selftest()
    except AssertionError as e:
        ctx.inconclusive_because(f"ref_header self-test failed: {e}")
        return
    import ofxtools.header as H

    rng = ctx.rng
    thorough = ctx.tier == "thorough"
    versions = list(range(100, 200)) + V2_SUPPORTED
    reps = 4 if not thorough else 120
    for i, version in enumerate(versions):
        if i % ctx.nshards != ctx.shard:
            continue
        ctx.add("versions_roundtripped", version)
        for security in ("NONE", "TYPE1", None):
            for r in range(reps * (2 if version in (102, 103, 151, 160) + tuple(V2_SUPPORTED) else 1)):
                old, new = gen_uid(rng), gen_uid(rng)
                vform = "str" if (r + i) % 3 == 0 else "int"
                roundtrip(ctx, H, version, security, old, new, vform)
                ctx.distinct((version, security, old, new, vform))
        if i % 13 == 0:
            ctx.sample({"op": "roundtrip", "version": version, "text": str(H.make_header(version, "TYPE1", "a-b", "c_d"))})
    # corruption sweep (each shard uses different base versions)
    v1s = [102, 103, 151, 160, 100, 199, 123, 111]
    for r in range(3 if not thorough else 40):
        corruptions(ctx, H, rng, v1s[(ctx.shard + r) % 8], V2_SUPPORTED[(ctx.shard + r) % 7])
    ctx.distinct(("corruption-sweep", ctx.shard))
    ctx.sample({"op": "corrupt", "example": v1_text(v1_lines(102, CHARSET="1253"))})
    # make_header refusals: every version 0-99 and 300-999 (split over shards), unsupported 2xx, non-numeric
    for v in list(range(0, 100)) + list(range(300, 1000)) + [v for v in range(200, 300) if v not in V2_SUPPORTED] + [1000, 2030, -102, 10200]:
        if v % ctx.nshards != ctx.shard:
            continue
        for arg in (v, str(v)):
            ctx.ev()
            ctx.count("make_header_refusals")
            case = {"op": "make_header_refuse", "version": arg, "is_str": isinstance(arg, str)}
            try:
                h = H.make_header(arg)
            except H.OFXHeaderError:
                continue
            except Exception as e:
                ctx.violation("make_header/wrong-exception", f"make_header({arg!r}) raised {type(e).__name__}: {e}", case)
                continue
            if -100 < v < 0:
                ctx.count("unspecified_skipped")
                continue
            ctx.violation("make_header/unsupported-version-accepted", f"make_header({arg!r}) -> {type(h).__name__} {fields_of(h)}", case)
    if ctx.shard == 0:
        for arg in ("horses", "1O2", "", "10 2", "2.03"):
            ctx.ev()
            try:
                h = H.make_header(arg)
                ctx.violation("make_header/unsupported-version-accepted", f"make_header({arg!r}) -> {fields_of(h)}", {"op": "make_header_refuse", "version": arg, "is_str": True})
            except H.OFXHeaderError:
                pass
            except Exception as e:
                ctx.violation("make_header/wrong-exception", f"make_header({arg!r}) raised {type(e).__name__}: {e}", {"op": "make_header_refuse", "version": arg, "is_str": True})
        constructor_refusals(ctx, H)
    else:
        constructor_refusals(ctx, H)


def replay_str(ctx, H, case):
    cls = getattr(H, case["kind"])
    ctx.ev()
    try:
        h, _ = cls.parse(case["text"])
    except H.OFXHeaderError:
        return
    ctx.violation(f"corrupt/{case['kind']}/accepted/{case['what'].split('=')[0]}-non-ascii-digits", f"accepted: {fields_of(h)}", case)


def replay(ctx, case):
    ref_header.selftest()
    import ofxtools.header as H

    op = case["op"]
    if op == "roundtrip":
        roundtrip(ctx, H, case["version"], case["security"], case["old"], case["new"], case["vform"])
    elif op == "corrupt-str":
        replay_str(ctx, H, case)
    elif op == "corrupt":
        must_refuse(ctx, H, case["text"], case["what"], case["kind"], case.get("enc", "ascii"))
    elif op == "make_header_refuse":
        arg = case["version"]
        ctx.ev()
        try:
            h = H.make_header(arg)
            ctx.violation("make_header/unsupported-version-accepted", f"make_header({arg!r}) -> {fields_of(h)}", case)
        except H.OFXHeaderError:
            pass
    elif op == "ctor":
        constructor_refusals(ctx, H)
