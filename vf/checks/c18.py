"""C18 - ofxget settings obey CLI > user file > FI db > OFX Home > defaults, and persist.

Model-based history check.  Sources are materialised for real (argv, a generated
ofxget.cfg, the bundled fi.cfg read by the harness's own configparser, an OFX
Home answer served by the fake HTTP layer, the built-in DEFAULTS); each simulated
invocation reloads ofxtools.scripts.ofxget and runs the real argparse +
merge_config (oracle 1) or the real main() including write_config (oracle 2).
"""
import configparser
import os
import random
import shutil

from vf.gen import cli
from vf.net import ofxserver
from vf.net.fakehttp import FakeNet, Reply, transport_error

PROP = "C18"
LEVEL = "exploration"
TECHNIQUE = "model-based runtime monitor: effective argument mapping of real ofxget invocations compared with a precedence model over materialised sources; write/read histories on one configuration file checked offline (persistence, password canary, dry-run no-write, stable default CLIENTUID)"
RULE = ("(1) invocations 'ofxget stmt <nick> ...' where every configurable option is set by a random subset of {command line, user file section, "
        "bundled FI database (existing nicknames), OFX Home answer (url/org/fid/brokerid), built-in default}, each source with a distinct value - "
        "every (option x winning source) pair is covered each run; values: URLs with URL-legal characters incl. % : = ? & ~, identifiers, integers, "
        "booleans (CLI can only set True), account lists of length 0-6; (2) histories of 2-5 runs on one ofxget.cfg: write runs (real main() "
        "against the fake server), plain runs, dry runs with --write. A case = one invocation or one history")
RULE += " Added later: histories over stmt / stmtend / prof / acctinfo / tax1099, '--all --write' runs, a preset default CLIENTUID with no section for the nickname, saved account lists given again in another order, a --write for another nickname in between."
ASSUMPTIONS = ["the built-in default of an option is whatever ofxget.DEFAULTS says; None and '' both mean 'unset' for string options",
               "'in effect' is judged twice: on the merged option mapping and on the request actually built (dry-run output / what the fake server received: version, format flags, identifiers; unset identifiers and the user id of profile requests are not compared)",
               "UNSPECIFIED, not generated: empty-string CLI values; account numbers containing , ' [ ]; values in the user file's [DEFAULT] section other than the generated clientuid",
               "non-persistable by design (not compared across runs): inctran/incbal/incpos/incoo, dates, years, password",
               "the first --write CREATES the default CLIENTUID: equality of effective values is required from the first run after the write onward"]
LEVEL_TEXT = ("Exploration with a reference model: thousands of invocations with independently chosen source subsets per option are merged by the "
              "real code and compared key by key with the precedence lattice; hundreds of multi-run histories exercise --write on a shared file. "
              "Each (option x winning source) combination is observed every run.")
LEVEL_NOTE = "In-process invocation (module reload per run) validated by a sample of true subprocess runs observed on the wire; keyring is not installed."
DESIGN_REF = "DESIGN.md §3 C18"
MIN_COUNTERS = {"quick": {"merge_invocations": 2000, "option_comparisons": 50000, "histories": 300, "history_runs": 900, "winning_source_pairs": 70, "subprocess_runs": 8, "requests_compared_with_effective_options": 900},
                "thorough": {"merge_invocations": 45000, "option_comparisons": 1000000, "histories": 5500, "history_runs": 16000, "winning_source_pairs": 70, "subprocess_runs": 100, "requests_compared_with_effective_options": 15000}}

STR_OPTS = ["url", "ofxhome", "org", "fid", "bankid", "brokerid", "appid", "appver", "language", "useragent", "user", "clientuid"]
INT_OPTS = ["version"]
BOOL_OPTS = ["pretty", "unclosedelements", "nonewfileuid", "skipprofile"]
LIST_OPTS = ["checking", "savings", "moneymrkt", "creditline", "creditcard", "investment"]
PERSISTABLE = STR_OPTS + INT_OPTS + BOOL_OPTS + LIST_OPTS
CLI_FLAG = {"unclosedelements": "--unclosedelements", "pretty": "--pretty", "nonewfileuid": "--nonewfileuid", "skipprofile": "--skipprofile"}
LIST_FLAG = {"checking": "-C", "savings": "-S", "moneymrkt": "-M", "creditline": "-L", "creditcard": "-c", "investment": "-i"}
OFXHOME_KEYS = ["url", "org", "fid", "brokerid"]
URLCH = "abcdefghijklmnopqrstuvwxyzABCXYZ0123456789-._~%:=?&/+@!$*,;()"


def shards(tier):
    return 16


def timeout(tier):
    return 900 if tier == "quick" else 5400


_FIDB = None


def fidb():
    global _FIDB
    if _FIDB is None:
        from ofxtools import config
        c = configparser.ConfigParser(interpolation=None)
        c.read(config.CONFIGDIR / "fi.cfg")
        _FIDB = {s: dict(c[s]) for s in c.sections() if s != "NAMES"}
    return _FIDB


def gen_url(rng, tag):
    path = "".join(rng.choice(URLCH) for _ in range(rng.randint(1, 14)))
    return f"https://{tag}.example.org/{path.lstrip('/')}".replace("//", "/").replace("https:/", "https://")


def gen_value(rng, opt, tag):
    """A distinct, recognisable value for option `opt` coming from source `tag`."""
    if opt == "url":
        return gen_url(rng, tag)
    if opt == "version":
        return {"cli": 102, "user": 103, "fidb": 151, "ofxhome": 160}.get(tag, 220) if rng.random() < 0.5 else rng.choice([102, 103, 151, 160, 200, 201, 202, 210, 211, 220])
    if opt in BOOL_OPTS:
        return True
    if opt in LIST_OPTS:
        # account numbers as banks print them: also with a blank or other punctuation inside (never at the ends, never a comma)
        return [f"{tag[:1]}{rng.randint(1, 99999)}" + rng.choice(["", "-x", "A", " 01", " 7 7", ";2", "=3", "#4", "%20"]) for _ in range(rng.randint(1, 6))]
    if opt == "ofxhome":
        return str(rng.randint(400, 999))
    if opt == "language":
        return rng.choice(["ENG", "FRA", "SPA"])
    if opt == "appid":
        return (tag[:2] + "".join(rng.choice("QWERT") for _ in range(3)))[:5].upper()
    if opt == "appver":
        return str(rng.randint(1000, 9999))
    return f"{tag}-{opt}-{rng.randint(1, 9999)}" + rng.choice(["", "%41", "=x", ":y", " z"]).rstrip()


def hist_value(rng, opt, r):
    """Values for the write/read histories: like gen_value but inside the OFX model limits, so that the command completes."""
    n = rng.randint(1, 9999)
    if opt == "user":
        return f"u{r}x{n}" + rng.choice(["", "%41", "=x", ":y"])
    if opt in ("org", "fid"):
        return f"{opt[0].upper()}{r}-{n}" + rng.choice(["", "%", "=x"])
    if opt == "bankid":
        return f"{r}{n:05d}"
    if opt == "brokerid":
        return f"b{r}.ex{n}.com"
    if opt == "clientuid":
        return f"CU{r}-{n:04d}-{rng.getrandbits(32):08X}"
    if opt == "useragent":
        return f"Agent{r}/{n} (x; y=z%20)"
    return gen_value(rng, opt, f"r{r}")


LIST_LAYOUTS = [", ", ",", " , ", ",\t", ",\n    ", ",  "]


def cfg_text(v):
    if isinstance(v, bool):
        return "true" if v else "false"
    if isinstance(v, list):
        # every way a person lays a list out in an ini file: tight, spaced, blank before the comma, tabs, one item per continuation line
        sep = LIST_LAYOUTS[(len(v) + len(v[0]) if v else 0) % len(LIST_LAYOUTS)]
        return sep.join(v)
    return str(v)


def write_user_cfg(sections):
    """sections: {name: {opt: value}} -> ofxget.cfg (hand-written, not through the library)."""
    p = cli.user_cfg_path()
    p.parent.mkdir(parents=True, exist_ok=True)
    lines = []
    for name, opts in sections.items():
        lines.append(f"[{name}]")
        for k, v in opts.items():
            lines.append(f"{k} = {cfg_text(v)}")
        lines.append("")
    p.write_text("\n".join(lines))


def reset_home():
    p = cli.user_cfg_path()
    shutil.rmtree(p.parent, ignore_errors=True)
    from ofxtools import config
    shutil.rmtree(config.DATADIR, ignore_errors=True)


def ofxhome_xml(idn, vals):
    def el(k):
        v = vals.get(k)
        return f"<{k}>{str(v).replace('&', '&amp;')}</{k}>" if v is not None else f"<{k}></{k}>"
    return (f'<institution id="{idn}"><name>FI {idn}</name>{el("fid")}{el("org")}{el("url")}{el("brokerid")}<ofxfail>0</ofxfail><sslfail>0</sslfail>'
            f'<lastofxvalidation>2020-01-01 00:00:00</lastofxvalidation><lastsslvalidation>2020-01-01 00:00:00</lastsslvalidation>'
            f'<profile finame="FI" signonmsgset="true" bankmsgset="true"/></institution>').encode()


def norm(v):
    return "" if v is None else v


def home_files():
    """{relative path: bytes} of every file under the invocation's HOME / XDG directories (settings, data, cache, logs).  The logging
    set-up file ofxget creates on its first run is left out (it is no setting of a server); an absent log file counts as empty."""
    root = os.environ["HOME"]
    out = {}
    for d, _, fs in os.walk(root):
        for f in fs:
            pth = os.path.join(d, f)
            rel = os.path.relpath(pth, root)
            if f == "logging.json" or "vf-" in rel:
                continue
            try:
                with open(pth, "rb") as fh:
                    out[rel] = fh.read()
            except OSError:
                pass
    return {k: v for k, v in out.items() if v or not k.endswith(".log")}


def argv_for(nick, cliopts, cmd="stmt"):
    argv = [cmd, nick]
    for k, v in cliopts.items():
        if k in BOOL_OPTS:
            argv.append(CLI_FLAG[k])
        elif k in LIST_OPTS:
            for x in v:
                argv += [LIST_FLAG[k], x]
        else:
            argv += ["--" + k, str(v)]
    return argv


# ------------------------------------------------------------------ oracle 1
def one_merge(ctx, net, rng, idx, cover):
    db = fidb()
    existing = rng.random() < 0.5
    nick = rng.choice(sorted(k for k, v in db.items() if "url" in v)) if existing else "zz" + "".join(rng.choice("abcdefghijk0123456789") for _ in range(rng.randint(2, 8)))
    dbopts = dict(db.get(nick, {})) if existing else {}
    cliopts, useropts, home = {}, {}, {}
    for opt in PERSISTABLE:
        # steer towards (option, winning source) pairs not yet seen in this run
        want = cover.next_for(opt, rng)
        if want == "cli" or rng.random() < 0.25:
            cliopts[opt] = gen_value(rng, opt, "cli")
        if want == "user" or rng.random() < 0.25:
            if opt in BOOL_OPTS:
                useropts[opt] = rng.choice([True, False])
            else:
                useropts[opt] = gen_value(rng, opt, "user")
        if opt in OFXHOME_KEYS and (want == "ofxhome" or rng.random() < 0.4):
            home[opt] = gen_value(rng, opt, "ofxhome")
        if want in ("ofxhome", "default", "fidb") and opt in cliopts and want != "cli":
            del cliopts[opt]
        if want in ("ofxhome", "default", "fidb") and opt in useropts:
            del useropts[opt]
    # the OFX Home layer only exists if a lookup is triggered (id configured somewhere, or no URL known)
    if home and not (cliopts.get("ofxhome") or useropts.get("ofxhome") or dbopts.get("ofxhome")) and rng.random() < 0.8:
        (cliopts if rng.random() < 0.5 else useropts)["ofxhome"] = gen_value(rng, "ofxhome", "x")
    ofxhome_id = cliopts.get("ofxhome", useropts.get("ofxhome", dbopts.get("ofxhome")))
    url_before_home = cliopts.get("url", useropts.get("url", dbopts.get("url", "")))
    lookup_triggered = bool(ofxhome_id) and ("ofxhome" in cliopts or "ofxhome" in useropts or "ofxhome" in dbopts or not url_before_home)
    home_fail = lookup_triggered and rng.random() < 0.05  # OFX Home unreachable: that layer is simply absent
    home_layer = home if (lookup_triggered and not home_fail) else {}
    lookups = []

    def handler(rec):
        if "ofxhome.com" in rec["url"]:
            lookups.append(rec["url"])
            if home_fail:
                return Reply(exc=transport_error())
            return Reply(ofxhome_xml(ofxhome_id, home))
        return Reply(ofxserver.statement_ok())

    net.handler = handler
    reset_home()
    if useropts or rng.random() < 0.3:
        write_user_cfg({nick: useropts})
    argv = argv_for(nick, cliopts) + ["-n"]
    eff, exc, og = cli.merge_only(argv)
    ctx.ev()
    ctx.count("merge_invocations")
    case = {"oracle": 1, "idx": idx, "nick": nick, "cli": cliopts, "user": useropts, "ofxhome": home, "argv": argv}
    if exc is not None:
        ctx.violation(f"merge-raises/{type(exc).__name__}", f"merge_config failed: {exc!r} for argv {argv}", case)
        return
    if lookup_triggered and not lookups:
        ctx.violation("ofxhome/lookup-not-performed", f"OFX Home id {ofxhome_id!r} is configured (or no URL is known) but no lookup was made", case)
    if lookups and not lookup_triggered:
        ctx.count("ofxhome_lookup_without_trigger")
    defaults = og.DEFAULTS
    conf_types = og.CONFIGURABLE
    for opt in PERSISTABLE:
        ctx.count("option_comparisons")
        if opt in cliopts:
            want, src = cliopts[opt], "cli"
        elif opt in useropts:
            want, src = useropts[opt], "user"
        elif opt in dbopts:
            raw = dbopts[opt]
            t = conf_types.get(opt, str)
            want = int(raw) if t is int else (raw.lower() in ("true", "yes", "on", "1")) if t is bool else [s.strip() for s in raw.split(",")] if t is list else raw
            src = "fidb"
        elif opt in OFXHOME_KEYS and opt in home_layer:
            want, src = home_layer[opt], "ofxhome"
        else:
            want, src = defaults[opt], "default"
        got = eff.get(opt)
        if norm(got) != norm(want):
            ctx.violation(f"precedence/{opt}/should-come-from-{src}", f"{opt}: effective {got!r}, but the highest-ranking source that sets it is {src} = {want!r} "
                          f"(cli={cliopts.get(opt)!r}, user={useropts.get(opt)!r}, fidb={dbopts.get(opt)!r}, ofxhome={home_layer.get(opt)!r})", case)
        else:
            cover.saw(opt, src)
    ctx.distinct(("merge", idx))
    if rng.random() < 0.5:
        request_reflects(ctx, eff, argv, case)
    return case


def request_reflects(ctx, eff, argv, case):
    """'The value in effect' is what the request is built with: the dry-run request printed by the real main() must show the
    effective version, format flags and identifiers (judged only when the combination is one the client accepts)."""
    from vf.oracles import ref_request

    inv, _og = cli.run_main(argv)
    data = cli.extract_request(inv.stdout) if inv.exc is None else None
    if data is None:
        ctx.count("dryrun_request_not_produced_not_judged")  # e.g. over-long identifier, 2xx with unclosed elements: refused by design
        return
    reflects(ctx, eff, data, argv, case)


def reflects(ctx, eff, data, argv, case):
    from vf.oracles import ref_request

    ctx.ev()
    ctx.count("requests_compared_with_effective_options")
    try:
        d = ref_request.describe(data)
    except Exception as e:
        ctx.violation(f"request/unreadable-{type(e).__name__}", f"{argv}: printed request cannot be read: {e!r}", case)
        return
    text = data.decode("utf_8", "replace")
    body = text[text.index("<OFX>"):]
    obs = {"version": d["version"], "pretty": "\n<" in body.strip() or "\r\n<" in body.strip(), "unclosedelements": "</DTCLIENT>" not in body,
           "nonewfileuid": d["newfileuid"] == "NONE", "user": d["signon"]["userid"], "language": d["signon"]["language"],
           "appid": d["signon"]["appid"], "appver": d["signon"]["appver"],
           "org": (d["signon"]["fi"] or {}).get("org"), "fid": (d["signon"]["fi"] or {}).get("fid")}
    want = {"version": eff.get("version"), "pretty": bool(eff.get("pretty")), "unclosedelements": bool(eff.get("unclosedelements")),
            "nonewfileuid": bool(eff.get("nonewfileuid")), "user": eff.get("user") or None, "language": eff.get("language"), "appid": eff.get("appid"),
            "appver": eff.get("appver"), "org": eff.get("org") or None, "fid": (eff.get("fid") or None) if eff.get("org") else obs["fid"]}
    if "clientuid" in d["signon"]:
        # <CLIENTUID> exists from OFX 1.0.3 on: from that version on the effective one is in every sign-on (below it: not judged)
        obs["clientuid"] = d["signon"]["clientuid"]
        want["clientuid"] = (eff.get("clientuid") or None) if (eff.get("version") or 0) >= 103 else obs["clientuid"]
    if not want["user"] or any(r["kind"] == "profile" for r in d["requests"]):
        want["user"] = None  # no user configured, or a profile request: the anonymous placeholder goes out (C14's business)
    for k in want:
        w, o = want[k], obs[k]
        if k in ("user", "language", "appid", "appver", "org", "fid", "clientuid") and not w:
            continue  # nothing configured anywhere: the client's own default goes out
        if isinstance(w, str) and isinstance(o, str):
            w, o = html_decode(w), o  # identifiers with entity look-alikes: C06's known finding, not judged here
            if "&" in want[k]:
                continue
        if w != o and not (w in (None, "") and o in (None, "")):
            ctx.violation(f"request-ignores-effective-option/{k}", f"{argv}: effective {k}={want[k]!r} but the printed request shows {obs[k]!r}", case)


def html_decode(x):
    return x


class Cover:
    """Round-robin over (option, winning source) pairs so that each is observed every run."""

    def __init__(self):
        self.seen = set()
        self.todo = {}

    def next_for(self, opt, rng):
        srcs = ["cli", "user", "default"] + (["ofxhome"] if opt in OFXHOME_KEYS else [])
        missing = [s for s in srcs if (opt, s) not in self.seen]
        if missing and rng.random() < 0.6:
            return rng.choice(missing)
        return rng.choice(srcs + ["fidb"])

    def saw(self, opt, src):
        self.seen.add((opt, src))


# ------------------------------------------------------------------ oracle 2
def one_history(ctx, net, rng, idx):
    db = fidb()
    existing = rng.random() < 0.4
    if existing:
        # a nickname of the bundled FI database: its values are the baseline the user's settings are laid over
        nick = rng.choice(sorted(k for k, v in db.items() if "url" in v and "version" in v and "unclosedelements" not in v))
    else:
        nick = "hist" + "".join(rng.choice("abcdefghij") for _ in range(4))
    reset_home()
    canary = f"PWCANARY{rng.getrandbits(40):010x}"

    def handler(rec):
        if "ofxhome.com" in rec["url"]:
            return Reply(exc=transport_error())  # OFX Home unreachable: that layer is absent in these histories
        if b"<PROFRQ>" in (rec["body"] or b""):
            return Reply(ofxserver.profile_ok("20200101000000.000[+0:UTC]", rec["url"], rec["url"]))
        if b"<ACCTINFORQ>" in (rec["body"] or b""):
            return Reply(ofxserver.acctinfo_ok(listed["accounts"]))
        return Reply(ofxserver.statement_ok())

    listed = {"accounts": []}
    net.handler = handler
    runs = []
    expected = {}  # effective values of `nick` from the FI database + what the last write persisted
    if existing:
        import ofxtools.scripts.ofxget as og0
        for opt, raw in db[nick].items():
            if opt in PERSISTABLE:
                t = og0.CONFIGURABLE.get(opt, str)
                expected[opt] = int(raw) if t is int else (raw.lower() in ("true", "yes", "on", "1")) if t is bool else [x.strip() for x in raw.split(",")] if t is list else raw
    default_cuid = None
    preset = None
    if rng.random() < 0.3:
        # the user's file already holds a default CLIENTUID (left by runs for OTHER nicknames) and no section for this one: the
        # default is in effect from the first run on, not only once the section exists
        preset = f"PRESET-{rng.getrandbits(32):08X}"
        path0 = cli.user_cfg_path()
        path0.parent.mkdir(parents=True, exist_ok=True)
        path0.write_text(f"[DEFAULT]\nclientuid = {preset}\n\n[someoneelse]\nurl = https://else.example/ofx\nuser = else\n")
        default_cuid = preset
        ctx.count("histories_with_preset_default_clientuid")
    case = {"oracle": 2, "idx": idx, "nick": nick, "runs": runs, "fidb": dict(db.get(nick, {})) if existing else None, "preset_default_clientuid": preset}
    nruns = rng.randint(2, 5)
    if existing:
        ctx.count("histories_on_fidb_nicknames")
    first_url = gen_url(rng, "hist")
    v1only = rng.random() < 0.3  # only then may --unclosedelements be persisted (it is incompatible with OFX 2xx)
    for r in range(nruns):
        kind = rng.choice(["write", "write", "plain", "dry-write", "write", "plain", "dry-write", "all-write"]) if r else "write"
        cliopts = {}
        if r == 0:
            cliopts.update(bankid=hist_value(rng, "bankid", r), brokerid=hist_value(rng, "brokerid", r), user=hist_value(rng, "user", r))
            if not existing:
                cliopts["url"] = first_url
            if v1only:
                cliopts["version"] = rng.choice([102, 103, 151, 160])
        for opt in PERSISTABLE:
            if opt in ("ofxhome",) or (opt == "unclosedelements" and not v1only):
                continue
            if rng.random() < (0.35 if kind != "plain" else 0.1):
                if opt == "version":
                    cliopts[opt] = rng.choice([102, 103, 151, 160]) if v1only else rng.choice([203, 203, 102, 160, 211, 220])  # 203 = built-in default
                else:
                    cliopts[opt] = hist_value(rng, opt, r)
        for opt in LIST_OPTS:
            # the accounts that are already saved, given again in another order (the order of the requests is the order given)
            if r > 0 and kind != "all-write" and len(expected.get(opt) or []) >= 2 and rng.random() < 0.35:
                cliopts[opt] = list(reversed(expected[opt])) if rng.random() < 0.6 else expected[opt][1:] + expected[opt][:1]
                ctx.count("saved_list_given_again_in_other_order")
        if r > 0 and kind == "write" and rng.random() < 0.3:
            # a --write for ANOTHER nickname that has no section in the user's file yet: must not disturb the
            # default CLIENTUID nor the settings saved for `nick`
            other = "other" + "".join(rng.choice("klmnop") for _ in range(4))
            oargv = ["stmt", other, "--url", gen_url(rng, "other"), "--user", "ouser", "--bankid", "123456789", "-C", "42", "--password", canary, "--write"]
            oinv, _ = cli.run_main(oargv)
            ctx.count("history_runs")
            ctx.count("other_nickname_writes")
            runs.append({"kind": "write-other-nickname", "argv": oargv})
            if oinv.exc is not None:
                ctx.violation(f"history/run-fails/write-other/{type(oinv.exc).__name__}", f"{oargv}: {oinv.exc!r}", case)
                return
            c2 = configparser.ConfigParser(interpolation=None)
            c2.read_string(cli.user_cfg_path().read_text())
            cu2 = c2.defaults().get("clientuid")
            if default_cuid is not None and cu2 != default_cuid:
                ctx.violation("persist/default-clientuid-changed", f"writing nickname {other} changed the default CLIENTUID {default_cuid} -> {cu2}", case)
                return
        # every request kind that can persist settings, not only 'stmt' (the first run stays 'stmt': it establishes the section)
        cmd = "stmt" if r == 0 else rng.choice(["stmt", "stmt", "stmt", "stmtend", "prof", "acctinfo", "tax1099"])
        if cmd == "acctinfo" and kind != "plain":
            cmd = "prof"  # 'acctinfo --write' also merges the discovered accounts: C19's business
        if cmd != "stmt":
            import ofxtools.scripts.ofxget as og1
            known = {a.dest for a in og1.make_argparser().subparsers[cmd]._actions}
            cliopts = {k: v for k, v in cliopts.items() if k in known}
        active = None
        if kind == "all-write":
            # 'stmt --all --write': the accounts the server lists as ACTIVE replace the saved lists - all six of them, also the
            # kinds of which it lists none (no account options on the command line: that combination is UNSPECIFIED)
            cmd = "stmt"
            cliopts = {k: v for k, v in cliopts.items() if k not in LIST_OPTS and k not in ("bankid", "brokerid")}
            bid = expected.get("bankid") or "123456789"
            brk = expected.get("brokerid") or "broker.example.com"
            accts, active = [], {t: [] for t in LIST_OPTS}
            for t in LIST_OPTS:
                for j in range(rng.choice([0, 0, 1, 2])):
                    st = rng.choice(["ACTIVE", "ACTIVE", "AVAIL", "PEND"])
                    aid = f"{t[:2]}{r}{j}{rng.randint(10, 99)}"
                    a = {"acctid": aid, "status": st}
                    if t == "creditcard":
                        a["kind"] = "cc"
                    elif t == "investment":
                        a.update(kind="inv", brokerid=brk)
                    else:
                        a.update(kind="bank", accttype=t.upper(), bankid=bid)
                    accts.append(a)
                    if st == "ACTIVE":
                        active[t].append(aid)
            if not any(active.values()):
                accts.append({"kind": "cc", "acctid": f"cc{r}000", "status": "ACTIVE"})
                active["creditcard"].append(f"cc{r}000")
            listed["accounts"] = accts
        ctx.count(f"history_runs_{cmd}_{kind}")
        argv = argv_for(nick, cliopts, cmd) + ["--password", canary] + (["-y", "2019"] if cmd == "tax1099" else [])
        if kind == "all-write":
            argv.append("--all")
        if kind in ("write", "dry-write", "all-write"):
            argv.append("--write")
        if kind == "dry-write":
            argv.append("--dryrun")
        if rng.random() < 0.3:
            argv.append(rng.choice(["-v", "-vv"]))  # chatty runs: what is logged goes to the console, not into files
            ctx.count("history_runs_verbose")
        path = cli.user_cfg_path()
        before = path.read_bytes() if path.exists() else None
        files0 = home_files()
        nrec0 = len(net.records)
        inv, og = cli.run_main(argv)
        after = path.read_bytes() if path.exists() else None
        files1 = home_files()
        for rel, data in files1.items():
            if canary.encode() in data:
                ctx.violation(f"persist/password-stored/{os.path.basename(rel)}", f"run {r} ({kind}) {argv[-3:]}: the password appears in {rel}", case)
        if kind == "dry-write" and files1 != files0:
            diff = sorted(k for k in set(files0) | set(files1) if files0.get(k) != files1.get(k))
            ctx.violation(f"persist/dry-run-wrote/{os.path.basename(diff[0])}", f"run {r} (dry run) changed files {diff}", case)
        ctx.ev()
        ctx.count("history_runs")
        runs.append({"kind": kind, "argv": argv})
        if inv.exc is not None or inv.args is None:
            ctx.violation(f"history/run-fails/{kind}/{type(inv.exc).__name__}", f"run {r} ({kind}) {argv}: {inv.exc!r} exit={inv.exit}", case)
            return
        eff = inv.args
        sent_now = [x["body"] for x in net.records[nrec0:] if x.get("body")]
        shown = cli.extract_request(inv.stdout) if kind == "dry-write" else (sent_now[-1] if sent_now else None)
        if shown is not None:
            reflects(ctx, eff, shown, argv, case)
        # effective values of this run = CLI over what was persisted
        for opt in PERSISTABLE:
            if opt == "ofxhome":
                continue
            if opt == "clientuid" and opt not in cliopts and (r > 0 or preset) and default_cuid is not None and "clientuid" not in expected:
                want = default_cuid
            else:
                want = cliopts.get(opt, expected.get(opt, og.DEFAULTS[opt]))
            if opt == "clientuid" and opt not in cliopts and opt not in expected and default_cuid is None:
                continue  # no default CLIENTUID exists yet
            if norm(eff.get(opt)) != norm(want):
                ctx.violation(f"persist/{opt}/not-what-was-saved", f"run {r} ({kind}): {opt} effective {eff.get(opt)!r}, expected {want!r} "
                              f"(cli {cliopts.get(opt)!r}, saved {expected.get(opt)!r}); file: {(before or b'')[-300:]!r}", case)
        if after is not None and canary.encode() in after:
            ctx.violation("persist/password-stored", f"run {r} ({kind}): the password appears in ofxget.cfg", case)
        if kind in ("plain", "dry-write"):
            if after != before:
                ctx.violation(f"persist/{'dry-run' if kind == 'dry-write' else 'plain-run'}-changed-file", f"run {r} ({kind}) changed ofxget.cfg", case)
        else:
            if after is None:
                ctx.violation("persist/write-created-no-file", f"run {r}: --write left no ofxget.cfg", case)
                return
            for opt in PERSISTABLE:
                if opt in cliopts:
                    expected[opt] = cliopts[opt]
            if active is not None:
                for t in LIST_OPTS:
                    if active[t]:
                        expected[t] = active[t]
                    else:
                        expected.pop(t, None)
                if any(active[t] for t in LIST_OPTS if t not in ("creditcard", "investment")):
                    expected["bankid"] = bid
                if active["investment"]:
                    expected["brokerid"] = brk
            c = configparser.ConfigParser(interpolation=None)
            c.read_string(after.decode())
            cu = c.defaults().get("clientuid")
            if cu is None:
                ctx.violation("persist/no-default-clientuid", f"run {r}: --write did not create [DEFAULT] clientuid", case)
            elif default_cuid is None:
                default_cuid = cu
            elif cu != default_cuid:
                ctx.violation("persist/default-clientuid-changed", f"run {r}: default CLIENTUID {default_cuid} became {cu}", case)
    ctx.count("histories")
    ctx.distinct(("hist", idx))
    if idx.endswith("/0"):
        ctx.sample({"history": [{"kind": x["kind"], "argv": [a if not a.startswith("PWCANARY") else "<canary>" for a in x["argv"]]} for x in runs],
                    "final_file": (cli.user_cfg_path().read_text() if cli.user_cfg_path().exists() else None)})


# ------------------------------------------------------------------ subprocess validation
def subprocess_runs(ctx, rng, n):
    import subprocess
    import sys
    from vf.net.loopback import LoopbackNet
    from vf.oracles import ref_request

    loop = LoopbackNet().install()
    loop.handler = lambda rec: (Reply(ofxserver.profile_ok("20200101000000.000[+0:UTC]", rec["url"], rec["url"])) if b"<PROFRQ>" in (rec["body"] or b"")
                                else Reply(ofxserver.statement_ok()))
    try:
        for i in range(n):
            reset_home()
            nick = "sub" + "".join(rng.choice("abcdef") for _ in range(4))
            v1 = rng.choice([102, 103, 160, 211, 220])
            org, user = f"ORG{rng.randint(1, 999)}", f"user{rng.randint(1, 999)}"
            accts = [str(rng.randint(100, 99999)) for _ in range(rng.randint(1, 3))]
            url = loop.base() + "/ofx/" + "".join(rng.choice("abc%20=") for _ in range(5))
            base = [sys.executable, "-W", "ignore", "-m", "ofxtools.scripts.ofxget"]
            a1 = ["stmt", nick, "--url", url, "--version", str(v1), "--org", org, "--user", user, "--bankid", "123", "--password", "PWCANARYsub", "--skipprofile", "-w"]
            for a in accts:
                a1 += ["-C", a]
            n0 = len(loop.records)
            p1 = subprocess.run(base + a1, stdout=subprocess.PIPE, stderr=subprocess.PIPE, timeout=60)
            p2 = subprocess.run(base + ["stmt", nick, "--password", "PWCANARYsub"], stdout=subprocess.PIPE, stderr=subprocess.PIPE, timeout=60)
            recs = loop.records[n0:]
            ctx.ev()
            ctx.count("subprocess_runs")
            case = {"oracle": "subprocess", "argv": a1}
            if len(recs) != 2:
                ctx.violation("subprocess/unexpected-requests", f"{len(recs)} requests seen for a write run + a plain run; rc={p1.returncode},{p2.returncode} {p2.stderr[-200:]!r}", case)
                continue
            d1, d2 = ref_request.describe(recs[0]["body"]), ref_request.describe(recs[1]["body"])
            obs = lambda d, r: (d["version"], d["signon"]["userid"], (d["signon"]["fi"] or {}).get("org"), [x["acctid"] for x in d["requests"]], r["url"])
            if obs(d1, recs[0]) != obs(d2, recs[1]) or obs(d1, recs[0]) != (v1, user, org, accts, url):
                ctx.violation("subprocess/second-run-differs", f"write run sent {obs(d1, recs[0])}, plain run sent {obs(d2, recs[1])}, asked {(v1, user, org, accts, url)}", case)
            txt = cli.user_cfg_path().read_text() if cli.user_cfg_path().exists() else ""
            if "PWCANARYsub" in txt:
                ctx.violation("persist/password-stored", "password in ofxget.cfg (subprocess run)", case)
            ctx.distinct(("sub", i, url))
    finally:
        loop.remove()


def run_shard(ctx):
    net = FakeNet().install()
    cover = Cover()
    try:
        n1 = (3200 if ctx.tier == "quick" else 56000) // ctx.nshards
        for i in range(n1):
            idx = f"{ctx.seed}/{ctx.shard}/{i}"
            case = one_merge(ctx, net, random.Random("C18m/" + idx), idx, cover)
            if case and i == 3:
                ctx.sample({"invocation": case["argv"], "user_file_section": case["user"], "ofxhome_answer": case["ofxhome"]})
        n2 = (400 if ctx.tier == "quick" else 7000) // ctx.nshards
        for i in range(n2):
            idx = f"{ctx.seed}/{ctx.shard}/{i}"
            one_history(ctx, net, random.Random("C18h/" + idx), idx)
    finally:
        net.remove()
    for pair in cover.seen:
        ctx.add("winning_source_pairs_set", f"{pair[0]}<-{pair[1]}")
    if ctx.shard < (8 if ctx.tier == "quick" else 16):
        subprocess_runs(ctx, ctx.rng, 2 if ctx.tier == "quick" else 8)
    reset_home()


def finalize(merged, tier):
    merged["counters"]["winning_source_pairs"] = len(merged["sets"].get("winning_source_pairs_set", ()))


def replay(ctx, case):
    net = FakeNet().install()
    try:
        idx = case["idx"]
        if case["oracle"] == 1:
            one_merge(ctx, net, random.Random("C18m/" + idx), idx, Cover())
        elif case["oracle"] == 2:
            one_history(ctx, net, random.Random("C18h/" + idx), idx)
    finally:
        net.remove()
    if case["oracle"] == "subprocess":
        subprocess_runs(ctx, ctx.rng, 4)
