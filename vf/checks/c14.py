"""C14 - the client sends only what it should, where it should, nothing on a dry run.

History recording + offline check.  Recorded per scenario, from one monotonic
counter: client calls {client, op, mode, call/return, result|exception}, the
requests seen by the fake server installed under urllib's opener (or by a real
loopback server) and the interpreter's audit events (urllib.Request, socket.*).
The offline checker replays the history against the sequential model of what
must be on the wire.
"""
import os
import random
import re
import threading
import shutil

from vf.monitors.audit import AUDIT, NET
from vf.net import ofxserver
from vf.net.fakehttp import transport_error
from vf.net.fakehttp import FakeNet, Reply
from vf.net.loopback import LoopbackNet
from vf.oracles import ref_request

PROP = "C14"
LEVEL = "exploration"
TECHNIQUE = "history recording (client calls + fake/loopback server records + sys.addaudithook network events) and offline checking against a sequential wire model; unique canary credentials and unique cookie values make the history unambiguous"
RULE = ("scenarios: 1-3 client instances (own or shared hosts; profile advertising the same or a different service URL; cookie-setting or silent "
        "servers) x sequences of 1-8 operations over {statements, closing statements, account info, tax, profile} x {dry run, skip_profile, "
        "normal}. ~90 % through the in-process fake under urllib's opener (arbitrary host names, https), ~10 % through a real 127.0.0.1 server. "
        "A case = one scenario history; non-trivial = at least one operation whose wire trace was compared with the model")
RULE += ' Added later: loopback servers answering 301/302/303/307/308 (no credentials may follow), one client in four with non-ASCII identities, one call in four made from a worker thread, transport failures after the request was received, profile updates that move the service URL.'
ASSUMPTIONS = ["only the urllib branch of post_request is reachable (requests is not installed in this image)",
               "injected transport failures happen AFTER the fake server has taken the request (time-out, HTTP 500, reset): 'exactly one POST' then means not repeated; a refused connection is not injected (a retry of a request that never left is not a second POST)",
               "cookie expectations are per host, as http.cookiejar scopes them; ref_request.py reads request bodies independently",
               "the audit hook sees every urllib.Request / socket.connect / getaddrinfo made by the interpreter"]
LEVEL_TEXT = ("Exploration of histories: thousands of multi-client operation sequences are executed against recording servers; each history is "
              "checked offline for exactly-the-expected POSTs (count, URL, method, headers, body), placement of the canary credentials, absence of "
              "any network event during dry runs, and cookie confinement/replay per client instance.")
LEVEL_NOTE = "Trusts the recording fake (which replaces only http_open/https_open) and the audit hook as ground truth for 'no network activity'."
DESIGN_REF = "DESIGN.md §3 C14"
MIN_COUNTERS = {"quick": {"scenarios": 780, "ops_checked": 2500, "dryrun_ops": 500, "posts_checked": 1700, "cookie_requests_checked": 1700, "loopback_scenarios": 60, "ops_redirected": 60, "audit_net_events": 2400, "ops_with_transport_failure": 400},
                "thorough": {"scenarios": 15000, "ops_checked": 50000, "dryrun_ops": 10000, "posts_checked": 38000, "cookie_requests_checked": 38000, "loopback_scenarios": 1200, "ops_redirected": 1400, "audit_net_events": 48000, "ops_with_transport_failure": 8000}}

OPS = ["stmt", "stmtend", "acctinfo", "tax", "profile", "stmt", "acctinfo", "profile-override"]


def shards(tier):
    return 16


def timeout(tier):
    return 900 if tier == "quick" else 5400


def clear_cache():
    from ofxtools import config
    shutil.rmtree(config.DATADIR / "fiprofiles", ignore_errors=True)


REDIRECTS = ["redirect-307", "redirect-308", "redirect-302", "redirect-301", "redirect-303", "redirect-307", "status-503-cookie", "status-500-cookie"]


def gen_scenario(rng, idx, loopback_base=None):
    nclients = rng.choice([1, 1, 2, 2, 3])
    hosts = ["ofx.bank-a.example", "ofx.bank-b.example", "www.broker-c.example"]
    clients = []
    for i in range(nclients):
        tag = "ABC"[i]
        shared = i > 0 and rng.random() < 0.5
        # one institution in three has percent-encoded characters in its paths (a blank, a slash): the URL is used as it is given
        pe = rng.choice(["", "", "OFX%20Server/", "a%2Fb%25/"])
        if loopback_base:
            prof = f"{loopback_base}/{pe}{'shared' if shared else 'fi' + tag}/profile"
            svc = prof if rng.random() < 0.4 else f"{loopback_base}/{pe}{'shared' if shared else 'fi' + tag}/service"
        else:
            host = clients[0]["profile_url"].split("/")[2] if shared else hosts[i]
            scheme = rng.choice(["https", "https", "http"])
            prof = f"{scheme}://{host}/{pe}ofx/{'p' + tag if not shared or rng.random() < 0.5 else 'pA'}"
            svc = prof if rng.random() < 0.4 else f"{scheme}://{rng.choice([host, 'stmt.' + host.split('.', 1)[1]])}/{pe}svc/{tag}"
        clients.append({"tag": tag, "profile_url": prof, "service_url": svc, "password": f"CANARY-{tag}-{rng.getrandbits(48):012x}",
                        # one client in four has letters outside ASCII in what it signs on with (a body whose length in bytes is not its length in characters)
                        "userid": (f"us\u00e9r\u6c49{tag}{idx}" if rng.random() < 0.25 else f"user{tag}{idx}")[:32],
                        "org": rng.choice([None, "ORG" + tag, "\u00d6RG" + tag]), "fid": rng.choice([None, "77" + tag]), "useragent": rng.choice([None, f"Agent{tag}/1.0"]),
                        "version": rng.choice([102, 103, 160, 203, 220]), "cookies": rng.random() < 0.7,
                        "advertise": rng.choice(["single"] * 5 + ["multi", "none"]),
                        # from this operation on (index into ops) the institution publishes a NEWER profile that moves the service URL
                        "update_at": rng.choice([None, None, 1, 2, 3, 4])})
    for c in clients:  # one institution (profile URL), one publication history
        first = next(x for x in clients if x["profile_url"] == c["profile_url"])
        c["update_at"] = first["update_at"]
        if first is not c:
            c["service_url"] = first["service_url"]
            c["advertise"] = first["advertise"]
    ops = []
    for _ in range(rng.randint(1, 8)):
        c = rng.choice(clients)
        ops.append({"client": c["tag"], "op": rng.choice(OPS), "mode": rng.choice(["normal", "normal", "dryrun", "skip"]),
                    # one call in four is made from a thread of its own (a worker of the application): the same client, strictly one call at a time
                    "in_thread": rng.random() < 0.25,
                    # the server (fake transport only) takes the operation's own request and then fails: still exactly one POST of it
                    # ... or (real server only) answers it with a redirect to some other place: whatever the HTTP layer makes of that,
                    # the user's credentials must not travel there
                    "fault": rng.choice([None] * 5 + REDIRECTS) if loopback_base else rng.choice([None] * 12 + ["timeout", "http500", "reset", "timeout"])})
    return {"idx": idx, "clients": clients, "ops": ops, "loopback": bool(loopback_base)}


class _Done(Exception):
    pass


class Recorder:
    """The client boundary: one monotonic counter over calls, server records and audit events."""

    def __init__(self, net, scen):
        self.net, self.scen = net, scen
        self.calls = []
        self.cookie_owner = {}  # cookie value -> client tag that received it
        self.by_url = {}
        for c in scen["clients"]:
            self.by_url.setdefault(c["profile_url"], []).append(c)
            self.by_url.setdefault(c["service_url"], []).append(c)
        self.counter = 0
        net.handler = self.serve

    def serve(self, rec):
        body = rec["body"] or b""
        tag = rec.get("client")
        c = next((x for x in self.scen["clients"] if x["tag"] == tag), None)
        headers = []
        if c is not None and c["cookies"] and "sid=" not in (rec["headers"].get("cookie", "").lower()):
            self.counter += 1
            val = f"{tag}x{self.scen['idx'].replace('/', '_')}x{self.counter}"
            self.cookie_owner[val] = tag
            headers.append(("Set-Cookie", f"SID={val}; Path=/"))
        fault = getattr(self, "fault", None)
        if fault and fault.startswith("status-") and (b"<PROFRQ>" not in body or self.fault_on_profile):
            # an error status that nevertheless sets a cookie (a load balancer pinning the session before the back end failed)
            self.counter += 1
            val = f"{tag}e{self.scen['idx'].replace('/', '_')}x{self.counter}"
            self.cookie_owner[val] = tag
            return Reply(b"<html>service unavailable</html>", status=int(fault.split("-")[1]), headers=[("Set-Cookie", f"SID={val}; Path=/")])
        if fault and fault.startswith("redirect-") and (b"<PROFRQ>" not in body or self.fault_on_profile):
            if "/elsewhere/" in rec["url"]:
                return Reply(ofxserver.statement_ok())
            return Reply(b"", status=int(fault[-3:]), headers=[("Location", rec["url"].split("/", 3)[0] + "//" + rec["url"].split("/", 3)[2] + f"/elsewhere/{tag}")])
        if fault and (b"<PROFRQ>" not in body or self.fault_on_profile):
            import urllib.error
            exc = {"timeout": TimeoutError("timed out (injected after the request was received)"),
                   "http500": urllib.error.HTTPError(rec["url"], 500, "Internal Server Error (injected)", {}, None),
                   "refused": transport_error(), "reset": ConnectionResetError(104, "Connection reset by peer (injected)")}[fault]
            return Reply(exc=exc)
        if b"<PROFRQ>" in body:
            svc = c["service_url"] if c else "https://unknown.invalid/"
            if c and c.get("advertise") == "multi":
                svc = {"bank": c["service_url"], "cc": c["service_url"] + "-cc", "inv": c["service_url"] + "-inv"}
            elif c and c.get("advertise") == "none":
                svc = {"bank": None, "cc": None, "inv": None}
            dt = "20200101000000.000[+0:UTC]"
            if c and c.get("advertise") == "single" and c.get("update_at") is not None and getattr(self, "op_index", 0) >= c["update_at"]:
                dt, svc = "20210615000000.000[+0:UTC]", c["service_url"] + "-v2"
            return Reply(ofxserver.profile_ok(dt, svc, c["profile_url"] if c else "x", finame="FI" + str(tag)), headers=headers)
        return Reply(ofxserver.statement_ok(), headers=headers)


def run_scenario(ctx, scen, net):
    import datetime
    from ofxtools.Client import CcStmtRq, OFXClient, StmtEndRq, StmtRq
    from ofxtools.utils import UTC

    clear_cache()
    rec = Recorder(net, scen)
    objs = {}
    for c in scen["clients"]:
        kw = {k: c[k] for k in ("userid", "org", "fid", "useragent", "version") if c[k] is not None}
        objs[c["tag"]] = OFXClient(c["profile_url"], bankid="123456789", brokerid="broker.example", **kw)
    history = []
    for oi, op in enumerate(scen["ops"]):
        rec.op_index = oi
        c = next(x for x in scen["clients"] if x["tag"] == op["client"])
        cl = objs[c["tag"]]
        net.set_client(c["tag"])
        kw = {"dryrun": op["mode"] == "dryrun"}
        if op["op"] not in ("profile", "profile-override"):
            kw["skip_profile"] = op["mode"] == "skip"
        n0, a0 = len(net.records), AUDIT.mark()
        rec.fault, rec.fault_on_profile = op.get("fault"), op["op"] in ("profile", "profile-override")
        def call():
            if op["op"] == "stmt":
                return cl.request_statements(c["password"], StmtRq(acctid="111", accttype="CHECKING"), CcStmtRq(acctid="222"), **kw)
            elif op["op"] == "stmtend":
                return cl.request_statements(c["password"], StmtEndRq(acctid="111", accttype="SAVINGS"), **kw)
            elif op["op"] == "acctinfo":
                return cl.request_accounts(c["password"], datetime.datetime(2020, 1, 1, tzinfo=UTC), **kw)
            elif op["op"] == "tax":
                return cl.request_tax1099(c["password"], "2019", acctnum="9", **kw)
            elif op["op"] == "profile-override":
                # the per-call url= override: this one request goes elsewhere; nothing of it may stick to the client
                return cl.request_profile(url=c["profile_url"] + "-alt", **kw)
            return cl.request_profile(**kw)

        try:
            if op.get("in_thread"):
                box = []

                def runner():
                    net.set_client(c["tag"])  # the fake transport tells clients apart per thread
                    try:
                        box.append(("ok", call().read()))
                    except Exception as e:  # noqa
                        box.append(("exc", e))

                th = threading.Thread(target=runner)
                th.start()
                th.join(120)
                ctx.count("ops_called_from_a_worker_thread")
                if not box:
                    raise TimeoutError("call in worker thread did not return within 120 s")
                if box[0][0] == "exc":
                    raise box[0][1]
                outcome = box[0]
                raise _Done()
            if op["op"] == "stmt":
                r = cl.request_statements(c["password"], StmtRq(acctid="111", accttype="CHECKING"), CcStmtRq(acctid="222"), **kw)
            elif op["op"] == "stmtend":
                r = cl.request_statements(c["password"], StmtEndRq(acctid="111", accttype="SAVINGS"), **kw)
            elif op["op"] == "acctinfo":
                r = cl.request_accounts(c["password"], datetime.datetime(2020, 1, 1, tzinfo=UTC), **kw)
            elif op["op"] == "tax":
                r = cl.request_tax1099(c["password"], "2019", acctnum="9", **kw)
            elif op["op"] == "profile-override":
                # the per-call url= override: this one request goes elsewhere; nothing of it may stick to the client
                r = cl.request_profile(url=c["profile_url"] + "-alt", **kw)
            else:
                r = cl.request_profile(**kw)
            outcome = ("ok", r.read())
        except _Done:
            pass
        except Exception as e:
            outcome = ("exc", repr(e))
        net.set_client(None)
        rec.fault = None
        history.append({"op": op, "client": c, "records": net.records[n0:], "audit": AUDIT.since(a0, NET), "outcome": outcome})
    return history, rec


WANT_KINDS = {"stmt": ["stmt", "ccstmt"], "stmtend": ["stmtend"], "acctinfo": ["acctinfo"], "tax": ["tax1099"], "profile": ["profile"], "profile-override": ["profile"]}


def check_history(ctx, scen, history, rec):
    from ofxtools.Client import AUTH_PLACEHOLDER, OFXClient

    case = {"scenario": scen}
    all_canaries = {c["password"]: c["tag"] for c in scen["clients"]}
    cookies_given = {}  # (client tag, host) -> set of cookie values that client must replay to that host
    for hi, h in enumerate(history):
        op, c = h["op"], dict(h["client"])
        if c.get("advertise") == "single" and c.get("update_at") is not None and hi >= c["update_at"]:
            c["service_url"] = c["service_url"] + "-v2"  # the newer profile is the one that counts from here on
            ctx.count("ops_after_profile_update")
        ctx.ev()
        ctx.count("ops_checked")
        tag = f"{op['op']}/{op['mode']}"
        posts = h["records"]
        ambiguous = c.get("advertise", "single") != "single" and op["mode"] == "normal" and op["op"] not in ("profile", "profile-override")
        if ambiguous:
            # the profile advertises several different service URLs, or none: the library may refuse; what it
            # must never do is send the credentials to a URL the profile does not advertise
            ctx.count("ambiguous_profile_ops")
            adv = set() if c["advertise"] == "none" else {c["service_url"], c["service_url"] + "-cc", c["service_url"] + "-inv"}
            for p in posts:
                if c["password"].encode() in (p["body"] or b"") and p["url"] not in adv:
                    ctx.violation("credentials-to-unadvertised-url", f"client {c['tag']} {tag}: profile advertises {sorted(adv)}, credentials POSTed to {p['url']}", case)
            continue
        if (op.get("fault") or "").startswith("status-") and op["mode"] != "dryrun":
            # the call fails; the cookie that came with the error reply is the client's all the same and goes out with its next request
            ctx.count("ops_answered_with_error_status_and_cookie")
            if h["outcome"][0] != "exc":
                ctx.violation(f"error-status-swallowed/{tag}", f"client {c['tag']} {tag}: server answered {op['fault']} but the call returned normally", case)
            for p in posts:
                for sc in p.get("replied", {}).get("set_cookie", []):
                    m = re.match(r"SID=([^;]+)", sc)
                    if m:
                        cookies_given[(c["tag"], p["host"])] = {m.group(1)}
            continue
        if (op.get("fault") or "").startswith("redirect-") and op["mode"] != "dryrun":
            # the server answered with a redirect.  What the call then does (fail, or fetch the new place without a body) is the
            # HTTP layer's business and not judged; the credentials going along to a place no profile advertises is
            ctx.count("ops_redirected")
            for p in posts:
                if "/elsewhere/" not in p["url"]:
                    continue
                ctx.count("requests_to_redirect_target")
                carried = [owner for canary, owner in all_canaries.items()
                           if canary.encode() in (p["body"] or b"") or canary in p["url"] or any(canary in str(v) for v in p["headers"].values())]
                if carried:
                    ctx.violation(f"credentials-follow-redirect/{op['fault'][-3:]}", f"client {c['tag']} {tag}: the server answered {op['fault']}; a {p['method']} carrying the "
                                  f"password of client {carried[0]} went to {p['url']}, which no profile advertises", case)
            continue
        if op.get("fault") and op["mode"] != "dryrun":
            # the server failed after taking the request: the call fails, and the request was sent once - not repeated behind the caller's back
            ctx.count("ops_with_transport_failure")
            if op["op"] == "profile-override":
                want_urls = [c["profile_url"] + "-alt"]
            elif op["op"] == "profile" or op["mode"] == "skip":
                want_urls = [c["profile_url"]]
            else:
                want_urls = [c["profile_url"], c["service_url"]]
            got = [p["url"] for p in posts]
            if h["outcome"][0] != "exc":
                ctx.violation(f"transport-failure-swallowed/{tag}", f"client {c['tag']} {tag}: server failed with {op['fault']} but the call returned normally", case)
            elif got != want_urls:
                ctx.violation(f"request-repeated-after-transport-failure/{op['fault']}", f"client {c['tag']} {tag}: {op['fault']} -> requests went to {got}, expected exactly {want_urls}", case)
            continue
        if h["outcome"][0] == "exc":
            ctx.violation(f"operation-raises/{tag}", f"client {c['tag']} {tag}: {h['outcome'][1]}", case)
            continue
        urls_audit = [e[2][0] for e in h["audit"] if e[1] == "urllib.Request"]
        ctx.count("audit_net_events", len(h["audit"]))
        if op["mode"] == "dryrun":
            ctx.count("dryrun_ops")
            if posts or h["audit"]:
                ctx.violation("dryrun-touches-network", f"dry run {tag} produced {len(posts)} requests and audit events {[e[1] for e in h['audit']][:5]}", case)
            continue
        if op["op"] == "profile-override":
            expect = [("profile", c["profile_url"] + "-alt")]
        elif op["op"] == "profile":
            expect = [("profile", c["profile_url"])]
        elif op["mode"] == "skip":
            expect = [(op["op"], c["profile_url"])]
        else:
            expect = [("profile", c["profile_url"]), (op["op"], c["service_url"])]
        got_urls = [p["url"] for p in posts]
        if got_urls != [u for _, u in expect]:
            k = "credentials-or-request-to-wrong-url" if len(got_urls) == len(expect) else "unexpected-number-of-requests"
            ctx.violation(f"{k}/{tag}", f"client {c['tag']} {tag}: requests went to {got_urls}, expected {[u for _, u in expect]}", case)
            continue
        if urls_audit != got_urls:
            ctx.violation("audit-disagrees-with-server", f"audit saw urllib.Request for {urls_audit}, server saw {got_urls}", case)
        if scen["loopback"] and not any(e[1] == "socket.connect" for e in h["audit"]):
            ctx.violation("audit-missed-socket-connect", "loopback request without a socket.connect audit event", case)
        for (kind, url), p in zip(expect, posts):
            ctx.count("posts_checked")
            hd = p["headers"]
            if p["method"] != "POST":
                ctx.violation("method-not-POST", f"{p['method']} {url}", case)
            if hd.get("content-type") != "application/x-ofx":
                ctx.violation("content-type-wrong", f"Content-Type {hd.get('content-type')!r}", case)
            acc = hd.get("accept", "")
            if "application/x-ofx" not in acc and "*/*" not in acc:
                ctx.violation("accept-does-not-admit-ofx", f"Accept {acc!r}", case)
            if hd.get("user-agent") != (c["useragent"] or OFXClient.useragent):
                ctx.violation("user-agent-wrong", f"User-Agent {hd.get('user-agent')!r}, configured {c['useragent']!r}", case)
            body = p["body"] or b""
            try:
                d = ref_request.describe(body)
            except Exception as e:
                ctx.violation("body-not-an-ofx-request", f"{url}: {e!r}: {body[:80]!r}", case)
                continue
            kinds = [r["kind"] for r in d["requests"]]
            if kinds != WANT_KINDS[kind]:
                ctx.violation(f"body-is-not-the-request-asked/{kind}", f"{url}: body carries {kinds}, asked {WANT_KINDS[kind]}", case)
            so = d["signon"]
            if kind == "profile":
                if so["userid"] != AUTH_PLACEHOLDER or so["userpass"] != AUTH_PLACEHOLDER:
                    ctx.violation("profile-request-not-anonymous", f"profile request carries userid={so['userid']!r}", case)
            else:
                if so["userid"] != c["userid"] or so["userpass"] != c["password"]:
                    ctx.violation("credentials-differ", f"request carries {so['userid']!r}/{so['userpass']!r}", case)
            # the canary may only ever travel to the URL it is meant for
            for canary, owner in all_canaries.items():
                if canary.encode() in body or canary in p["url"] or any(canary in str(v) for v in hd.values()):
                    allowed = owner == c["tag"] and kind != "profile" and url == (c["profile_url"] if op["mode"] == "skip" else c["service_url"])
                    if not allowed:
                        ctx.violation("credentials-leak", f"password of client {owner} seen in a {kind} request of client {c['tag']} to {url}", case)
            # cookies
            host = p["host"]
            sent = dict(re.findall(r"(\w+)=([^;\s]+)", hd.get("cookie", "")))
            ctx.count("cookie_requests_checked")
            for name, val in sent.items():
                owner = rec.cookie_owner.get(val)
                if owner is not None and owner != c["tag"]:
                    ctx.violation("cookie-leaks-to-other-client", f"client {c['tag']} sent cookie {val!r} that the server gave to client {owner}", case)
            due = cookies_given.get((c["tag"], host), set())
            if due and not (due & set(sent.values())):
                ctx.violation("cookie-not-replayed", f"client {c['tag']} did not replay its cookie {sorted(due)} to {host} (sent {sent})", case)
            for sc in p.get("replied", {}).get("set_cookie", []):
                m = re.match(r"SID=([^;]+)", sc)
                if m:
                    cookies_given[(c["tag"], host)] = {m.group(1)}


def run_shard(ctx):
    AUDIT.install()
    AUDIT.enabled = True
    n = (960 if ctx.tier == "quick" else 19200) // ctx.nshards
    fake = FakeNet().install()
    loop = None
    try:
        for i in range(n):
            idx = f"{ctx.seed}/{ctx.shard}/{i}"
            rng = random.Random("C14/" + idx)
            use_loop = i % 10 == 9
            if use_loop and loop is None:
                fake.remove()
                loop = LoopbackNet().install()
            if not use_loop and loop is not None:
                loop.remove()
                loop = None
                fake.install()
            net = loop if use_loop else fake
            scen = gen_scenario(rng, idx, loop.base() if use_loop else None)
            history, rec = run_scenario(ctx, scen, net)
            check_history(ctx, scen, history, rec)
            ctx.count("scenarios")
            if use_loop:
                ctx.count("loopback_scenarios")
            ctx.distinct(("scenario", idx))
            if i % 40 == 0:
                ctx.sample({"clients": [{k: c[k] for k in ("tag", "profile_url", "service_url", "cookies")} for c in scen["clients"]], "ops": scen["ops"],
                            "requests_seen": [[p["url"], p["headers"].get("cookie")] for h in history for p in h["records"]][:8]})
    finally:
        fake.remove()
        if loop is not None:
            loop.remove()
        AUDIT.enabled = False


def replay(ctx, case):
    AUDIT.install()
    AUDIT.enabled = True
    scen = case["scenario"]
    if scen.get("loopback"):
        net = LoopbackNet().install()
        idx = scen["idx"]
        scen = gen_scenario(random.Random("C14/" + idx), idx, net.base())
    else:
        net = FakeNet().install()
    try:
        history, rec = run_scenario(ctx, scen, net)
        check_history(ctx, scen, history, rec)
    finally:
        net.remove()
