"""C19 - ofxget requests exactly the configured or discovered accounts and given dates.

Monitor: the request that the real ofxget main() prints on a dry run (or sends to
the fake server for --all) is read by the independent readers and compared, as a
multiset of (kind, account type, account id, bank/broker id, start, end, as-of,
include flags), with what the command line / configuration file / the server's
account-information response call for.
"""
import collections
import random

from vf.checks.c18 import LIST_FLAG, reset_home, write_user_cfg
from vf.gen import cli
from vf.net import ofxserver
from vf.net.fakehttp import FakeNet, Reply
from vf.oracles import ref_request
from vf.oracles import ref_types as R

PROP = "C19"
LEVEL = "exploration"
TECHNIQUE = "runtime monitor on the real ofxget main(): dry-run output / requests received by a fake server read by independent readers and compared as a multiset with the configured accounts, dates and flags, or with the ACTIVE accounts of a generated ACCTINFORS"
RULE = ("(a) 'ofxget stmt|stmtend <nick> -n' with multisets (incl. duplicates) of 0-5 account numbers per type from the command line and/or the "
        "configuration file, bank/broker ids, dates as YYYYMMDD or full OFX date-times with offsets, all include-flag combinations; (b) 'stmt|stmtend "
        "--all' against a fake server whose ACCTINFORS mixes bank accounts of all five ACCTTYPEs, credit-card, investment and bill-pay accounts with "
        "ACTIVE / PEND / AVAIL status in 1-4 ACCTINFO groups (incl. 'no active account of some kind'), with and without --skipprofile, with and "
        "without a configuration section that already lists accounts. A case = one invocation")
ASSUMPTIONS = ["UNSPECIFIED, not generated: --all combined with accounts given on the command line; --all with -n",
               "dates are compared as instants (ref_types.py); investment inctran=False: INCTRAN absent or INCLUDE=N"]
LEVEL_TEXT = ("Exploration: thousands of real ofxget invocations (in-process main()) with generated account multisets, dates, flags and account-information "
              "responses; what is requested is read off the wire / the dry-run output by independent readers and compared as a multiset.")
LEVEL_NOTE = "Trusts ref_request.py and the hand-written ACCTINFORS templates; only the urllib transport is reachable."
DESIGN_REF = "DESIGN.md §3 C19"
MIN_COUNTERS = {"quick": {"dryrun_invocations": 1200, "all_invocations": 400, "accounts_compared": 5000, "inactive_accounts_offered": 500},
                "thorough": {"dryrun_invocations": 24000, "all_invocations": 8000, "accounts_compared": 100000, "inactive_accounts_offered": 10000}}

BANKTYPES = ["checking", "savings", "moneymrkt", "creditline"]
ALLTYPES = BANKTYPES + ["creditcard", "investment"]
_EPOCH_US = 0


def shards(tier):
    return 16


def timeout(tier):
    return 900 if tier == "quick" else 5400


def gen_acct(rng):
    if rng.random() < 0.08:
        # an IBAN-length number, beyond the 22 characters OFX allows for an account id: the library warns and uses it whole (two of them
        # agree in their first 22 characters)
        return "FR7630006000011234567890" + rng.choice(["189", "188", "1897", "XY"]) + str(rng.randint(0, 9))
    return rng.choice(["", "X", "00"]) + str(rng.randint(1, 9999999)) + rng.choice(["", "-1", "A", ".9", " 01", " 2 3", ";4"])


def gen_date(rng):
    y, m, d = rng.randint(1995, 2030), rng.randint(1, 12), rng.randint(1, 28)
    base = f"{y:04d}{m:02d}{d:02d}"
    r = rng.random()
    if r < 0.5:
        return base
    h, mi, s = rng.randint(0, 23), rng.randint(0, 59), rng.randint(0, 59)
    if r < 0.7:
        return base + f"{h:02d}{mi:02d}{s:02d}"
    off = rng.choice(["-5:EST", "+1", "0", "-0.30", "+5.30:IST", "-12", "+14", "-3.30:NST", "-2.30:NDT", "-9.30:MART", "+12.45", "-11.59", "+0.01"])
    return base + f"{h:02d}{mi:02d}{s:02d}.{rng.randint(0, 999):03d}[{off}]"


def expected_requests(cmd, accts, bankid, brokerid, dts, flags):
    """Multiset of request descriptions called for."""
    out = []
    for t in BANKTYPES:
        for a in accts.get(t, []):
            r = {"kind": "stmt" if cmd == "stmt" else "stmtend", "acctid": a, "accttype": t.upper(), "bankid": bankid, "dtstart": dts["start"], "dtend": dts["end"]}
            if cmd == "stmt":
                r["inctran"] = flags["inctran"]
            out.append(r)
    for a in accts.get("creditcard", []):
        r = {"kind": "ccstmt" if cmd == "stmt" else "ccstmtend", "acctid": a, "dtstart": dts["start"], "dtend": dts["end"]}
        if cmd == "stmt":
            r["inctran"] = flags["inctran"]
        out.append(r)
    if cmd == "stmt":
        for a in accts.get("investment", []):
            out.append({"kind": "invstmt", "acctid": a, "brokerid": brokerid, "dtstart": dts["start"], "dtend": dts["end"], "dtasof": dts["asof"],
                        "inctran": flags["inctran"], "incoo": flags["incoo"], "incpos": flags["incpos"], "incbal": flags["incbal"]})
    return out


def canon(r):
    """Hashable canonical form for multiset comparison (ms precision for instants)."""
    d = dict(r)
    for k in ("dtstart", "dtend", "dtasof"):
        if d.get(k) is not None:
            d[k] = (d[k] + 500) // 1000
    if d["kind"] == "invstmt" and not d.get("inctran"):
        d["inctran"] = False
        d["dtstart"] = d["dtend"] = None  # INCTRAN absent carries no dates
    d.pop("msgset", None)
    d.pop("trnuid", None)
    return tuple(sorted((k, v) for k, v in d.items() if v is not None or k in ("dtstart", "dtend", "dtasof")))


def compare(ctx, what, desc, want, case):
    got = [r for r in desc["requests"]]
    ctx.count("accounts_compared", len(want))
    cg = collections.Counter(canon(r) for r in got)
    cw = collections.Counter(canon(r) for r in want)
    if cg == cw:
        return True
    missing = list((cw - cg).elements())
    extra = list((cg - cw).elements())
    # classify
    mk = collections.Counter((dict(m)["kind"], dict(m)["acctid"]) for m in missing)
    ek = collections.Counter((dict(e)["kind"], dict(e)["acctid"]) for e in extra)
    if mk == ek:
        fields = set()
        for m in missing:
            for e in extra:
                if dict(m)["kind"] == dict(e)["kind"] and dict(m)["acctid"] == dict(e)["acctid"]:
                    fields |= {k for k in dict(m) if dict(m).get(k) != dict(e).get(k)}
        key = f"{what}/field-differs/" + "+".join(sorted(fields))
    elif not extra:
        key = f"{what}/account-missing"
    elif not missing:
        key = f"{what}/account-extra-or-duplicated"
    else:
        key = f"{what}/wrong-accounts"
    ctx.violation(key, f"requested {[dict(e) for e in extra][:3]} but called for {[dict(m) for m in missing][:3]} (of {len(want)} accounts)", case)
    return False


# ------------------------------------------------------------------ (a) dry runs
def one_dryrun(ctx, rng, idx):
    cmd = rng.choice(["stmt", "stmt", "stmtend"])
    nick = "c19" + "".join(rng.choice("abcdef") for _ in range(4))
    types = ALLTYPES if cmd == "stmt" else BANKTYPES + ["creditcard"]
    cli_accts, cfg_accts = {}, {}
    for t in types:
        r = rng.random()
        if r < 0.45:
            cli_accts[t] = [gen_acct(rng) for _ in range(rng.randint(1, 5))]
            if rng.random() < 0.2:
                cli_accts[t].append(cli_accts[t][0])  # duplicate
        if rng.random() < 0.35:
            cfg_accts[t] = [gen_acct(rng) for _ in range(rng.randint(1, 5))]
    bank_cli, bank_cfg = rng.random() < 0.5, True
    bankid_cli, bankid_cfg = str(rng.randint(10**8, 10**9 - 1)), str(rng.randint(10**8, 10**9 - 1))
    broker_cli, broker_cfg = f"cli{rng.randint(1, 99)}.broker.com", f"cfg{rng.randint(1, 99)}.broker.com"
    section = {"url": "https://c19.example.org/ofx", "bankid": bankid_cfg, "brokerid": broker_cfg, "user": "cfguser"}
    section.update(cfg_accts)
    reset_home()
    write_user_cfg({nick: section})
    argv = [cmd, nick, "-n"]
    for t, lst in cli_accts.items():
        for a in lst:
            argv += [rng.choice([LIST_FLAG[t], "--" + t]), a]
    if bank_cli:
        argv += ["--bankid", bankid_cli]
    use_broker_cli = cmd == "stmt" and rng.random() < 0.5
    if use_broker_cli:
        argv += ["--brokerid", broker_cli]
    dts_text = {"start": gen_date(rng) if rng.random() < 0.6 else None, "end": gen_date(rng) if rng.random() < 0.6 else None,
                "asof": gen_date(rng) if (cmd == "stmt" and rng.random() < 0.5) else None}
    for k, flag in (("start", rng.choice(["-s", "--start"])), ("end", rng.choice(["-e", "--end"])), ("asof", rng.choice(["-a", "--asof"]))):
        if dts_text[k] is not None:
            argv += [flag, dts_text[k]]
    flags = {"inctran": True, "incbal": True, "incpos": True, "incoo": False}
    if cmd == "stmt":
        for name, opt, val in (("inctran", "--no-transactions", False), ("incbal", "--no-balances", False), ("incpos", "--no-positions", False), ("incoo", "--open-orders", True)):
            if rng.random() < 0.4:
                argv.append(opt)
                flags[name] = val
    if rng.random() < 0.3:
        argv += ["--version", str(rng.choice([102, 160, 211, 220]))]
    # keep option/value pairs together while shuffling
    argv = argv[:3] + regroup(argv[3:], rng)
    inv, og = cli.run_main(argv)
    ctx.ev()
    ctx.count("dryrun_invocations")
    case = {"mode": "dryrun", "idx": idx, "argv": argv, "config_section": section}
    if inv.exc is not None:
        ctx.violation(f"dryrun/raises-{type(inv.exc).__name__}", f"ofxget {' '.join(argv)}: {inv.exc!r}", case)
        return
    data = cli.extract_request(inv.stdout)
    accts = {t: cli_accts.get(t, cfg_accts.get(t, [])) for t in types}
    dts = {k: (R.parse_datetime(v) if v else None) for k, v in dts_text.items()}
    want = expected_requests(cmd, accts, bankid_cli if bank_cli else bankid_cfg, broker_cli if use_broker_cli else broker_cfg, dts, flags)
    if data is None:
        ctx.violation("dryrun/no-request-printed", f"ofxget {' '.join(argv)} printed no OFX request: {inv.stdout[-200:]!r}", case)
        return
    try:
        desc = ref_request.describe(data)
    except Exception as e:
        ctx.violation(f"dryrun/request-unreadable-{type(e).__name__}", f"{e!r}", case)
        return
    compare(ctx, "dryrun", desc, want, case)
    ctx.distinct(("dry", idx))
    # once more inside the SAME loaded module (no reload: module-level state survives), same connection, other ids
    if rng.random() < 0.5:
        bank2, broker2 = str(rng.randint(10**8, 10**9 - 1)), f"second{rng.randint(1, 99)}.broker.com"
        argv2 = [a for a in argv]
        for flag, val in (("--bankid", bank2), ("--brokerid", broker2)):
            if flag == "--brokerid" and cmd != "stmt":
                continue
            if flag in argv2:
                argv2[argv2.index(flag) + 1] = val
            else:
                argv2 += [flag, val]
        inv2, _ = cli.run_main(argv2, reload=False)
        ctx.ev()
        ctx.count("dryrun_invocations")
        ctx.count("second_invocations_same_module")
        case2 = dict(case, argv=argv2, second_in_same_module=True)
        data2 = cli.extract_request(inv2.stdout) if inv2.exc is None else None
        if data2 is None:
            ctx.violation("dryrun/second-invocation-fails", f"ofxget {' '.join(argv2)} (second call in one process): {inv2.exc!r}", case2)
        else:
            want2 = expected_requests(cmd, accts, bank2, broker2 if cmd == "stmt" else broker_cfg, dts, flags)
            compare(ctx, "dryrun-second-call", ref_request.describe(data2), want2, case2)
    return argv


def regroup(tokens, rng):
    groups, i = [], 0
    valued = set(LIST_FLAG.values()) | {"--" + t for t in ALLTYPES} | {"--bankid", "--brokerid", "-s", "--start", "-e", "--end", "-a", "--asof", "--version"}
    while i < len(tokens):
        if tokens[i] in valued:
            groups.append(tokens[i:i + 2])
            i += 2
        else:
            groups.append(tokens[i:i + 1])
            i += 1
    rng.shuffle(groups)
    return [t for g in groups for t in g]


# ------------------------------------------------------------------ (b) --all
def one_all(ctx, net, rng, idx):
    cmd = rng.choice(["stmt", "stmt", "stmtend"])
    nick = "all" + "".join(rng.choice("abcdef") for _ in range(4))
    bankid, brokerid = str(rng.randint(10**8, 10**9 - 1)), f"b{rng.randint(1, 99)}.example.com"
    accounts = []
    shape = rng.choice(["mixed", "mixed", "all-bank-inactive", "no-bank", "only-cc", "all-inv-inactive", "everything-active"])
    for _ in range(rng.randint(1, 9)):
        kind = rng.choice(["bank", "bank", "bank", "cc", "inv", "bp"])
        status = rng.choice(["ACTIVE", "ACTIVE", "PEND", "AVAIL"])
        if shape == "everything-active":
            status = "ACTIVE"
        if shape == "all-bank-inactive" and kind == "bank":
            status = rng.choice(["PEND", "AVAIL"])
        if shape == "all-inv-inactive" and kind == "inv":
            status = rng.choice(["PEND", "AVAIL"])
        if shape == "no-bank" and kind == "bank":
            kind = "cc"
        if shape == "only-cc":
            kind = "cc"
        # whether the account supports transaction download is a detail of the listing: ACTIVE is what decides
        a = {"kind": kind, "acctid": gen_acct(rng), "status": status, "suptxdl": rng.choice(["Y", "Y", "N"])}
        if kind == "bank":
            a.update(accttype=rng.choice(["CHECKING", "SAVINGS", "MONEYMRKT", "CREDITLINE", "CD"]), bankid=bankid)
        if kind == "inv":
            a["brokerid"] = brokerid
        if kind == "bp":
            a["bankid"] = bankid
        accounts.append(a)
    if shape in ("mixed",) and not any(a["status"] == "ACTIVE" and a["kind"] != "bp" and a.get("accttype") != "CD" for a in accounts):
        accounts.append({"kind": "cc", "acctid": gen_acct(rng), "status": "ACTIVE"})
    if rng.random() < 0.25:
        # the server lists one of its accounts a second time (another <ACCTINFO>, e.g. of another service): it is still one account
        twice = rng.choice(accounts)
        accounts.append(dict(twice))
        ctx.count("responses_listing_an_account_twice")
    # each ACCTINFO may hold one *ACCTINFO of each kind: the template packs them into as many groups as needed
    ctx.count("inactive_accounts_offered", sum(1 for a in accounts if a["status"] != "ACTIVE"))
    active = {t: [] for t in ALLTYPES}
    for a in accounts:
        if a["status"] != "ACTIVE":
            continue
        if a["kind"] == "bank" and a["accttype"] != "CD":
            t = a["accttype"].lower()
        elif a["kind"] == "cc":
            t = "creditcard"
        elif a["kind"] == "inv":
            t = "investment"
        else:
            continue
        if a["acctid"] not in active[t]:
            active[t].append(a["acctid"])
    # optionally a configuration section that already lists accounts (as one written by an earlier '--all --write' would): of kinds
    # the server still reports ACTIVE accounts of, of kinds it reports none of, and accounts it now reports as not ACTIVE
    section = {"url": "https://all.example.org/ofx", "user": "alluser"}
    if rng.random() < 0.5:
        gone = {t: [] for t in ALLTYPES}
        for a in accounts:
            if a["status"] != "ACTIVE":
                t = a["accttype"].lower() if a["kind"] == "bank" and a["accttype"] != "CD" else {"cc": "creditcard", "inv": "investment"}.get(a["kind"])
                if t:
                    gone[t].append(a["acctid"])
        for t in ALLTYPES:
            if rng.random() < 0.6:
                lst = [gen_acct(rng) for _ in range(rng.randint(0, 2))] + ([active[t][0]] if active[t] and rng.random() < 0.5 else []) + (
                    [rng.choice(gone[t])] if gone[t] and rng.random() < 0.7 else [])
                if lst:
                    section[t] = lst
                    if not active[t]:
                        ctx.count("configured_kind_without_active_account")
        if any(t in section for t in BANKTYPES):
            section["bankid"] = bankid
        if "investment" in section:
            section["brokerid"] = brokerid
    reset_home()
    write_user_cfg({nick: section})
    seen = []

    def handler(rec):
        body = rec["body"] or b""
        if b"<PROFRQ>" in body:
            return Reply(ofxserver.profile_ok("20200101000000.000[+0:UTC]", rec["url"], rec["url"]))
        if b"<ACCTINFORQ>" in body:
            seen.append(("acctinfo", body))
            return Reply(ofxserver.acctinfo_ok(accounts))
        seen.append(("stmt", body))
        return Reply(ofxserver.statement_ok())

    net.handler = handler
    argv = [cmd, nick, "--all", "--password", "pw12345"]
    if rng.random() < 0.5:
        argv.append("--skipprofile")
    dts_text = {"start": gen_date(rng) if rng.random() < 0.5 else None, "end": gen_date(rng) if rng.random() < 0.5 else None, "asof": None}
    for k, flag in (("start", "-s"), ("end", "-e")):
        if dts_text[k]:
            argv += [flag, dts_text[k]]
    inv, og = cli.run_main(argv)
    ctx.ev()
    ctx.count("all_invocations")
    case = {"mode": "all", "idx": idx, "argv": argv, "accounts": accounts, "config_section": section, "shape": shape}
    any_active = any(active[t] for t in (ALLTYPES if cmd == "stmt" else BANKTYPES + ["creditcard"]))
    if inv.exc is not None:
        key = "all/no-active-bank-or-invest-account" if "is empty" in repr(inv.exc) else f"all/raises-{type(inv.exc).__name__}"
        ctx.violation(key, f"ofxget {' '.join(argv)} with accounts {[(a['kind'], a.get('accttype'), a['status']) for a in accounts]}: {inv.exc!r}", case)
        return
    stm = [b for k, b in seen if k == "stmt"]
    if len([1 for k, _ in seen if k == "acctinfo"]) != 1 or len(stm) != 1:
        ctx.violation("all/unexpected-request-sequence", f"server saw {[k for k, _ in seen]}", case)
        return
    try:
        desc = ref_request.describe(stm[0])
    except Exception as e:
        ctx.violation(f"all/request-unreadable-{type(e).__name__}", f"{e!r}", case)
        return
    dts = {k: (R.parse_datetime(v) if v else None) for k, v in dts_text.items()}
    flags = {"inctran": True, "incbal": True, "incpos": True, "incoo": False}
    want = expected_requests(cmd, active, bankid, brokerid, dts, flags)
    # bank id / broker id are only defined when an account of that kind is requested
    ok = compare(ctx, "all", desc, want, case)
    inactive_ids = {a["acctid"] for a in accounts if a["status"] != "ACTIVE" or a["kind"] == "bp" or a.get("accttype") == "CD"}
    asked = {r["acctid"] for r in desc["requests"]}
    bad = (asked & inactive_ids) - {x for lst in active.values() for x in lst}
    if bad:
        ctx.violation("all/inactive-account-requested", f"requested {sorted(bad)} which the server does not list as ACTIVE (of the six types)", case)
    ctx.distinct(("all", idx))
    return argv


def run_shard(ctx):
    R.selftest()
    n1 = (1600 if ctx.tier == "quick" else 28000) // ctx.nshards
    for i in range(n1):
        idx = f"{ctx.seed}/{ctx.shard}/{i}"
        argv = one_dryrun(ctx, random.Random("C19d/" + idx), idx)
        if argv and i == 2:
            ctx.sample({"mode": "dry run", "argv": argv})
    net = FakeNet().install()
    try:
        n2 = (560 if ctx.tier == "quick" else 9600) // ctx.nshards
        for i in range(n2):
            idx = f"{ctx.seed}/{ctx.shard}/{i}"
            argv = one_all(ctx, net, random.Random("C19a/" + idx), idx)
            if argv and i == 2:
                ctx.sample({"mode": "--all", "argv": argv})
    finally:
        net.remove()
    reset_home()


def replay(ctx, case):
    R.selftest()
    idx = case["idx"]
    if case["mode"] == "dryrun":
        one_dryrun(ctx, random.Random("C19d/" + idx), idx)
    else:
        net = FakeNet().install()
        try:
            one_all(ctx, net, random.Random("C19a/" + idx), idx)
        finally:
            net.remove()
