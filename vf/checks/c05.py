"""C05 - the header parser hands over exactly the body, decoded as declared.

Monitor: post-condition on parse_header(BytesIO(file)) and OFXTree().parse on
the same bytes, against the generator's own (fields, body) and the independent
ref_header / ref_sgml readers.
"""
import io
import itertools
import os

from vf.gen import render
from vf.oracles import ref_header, ref_sgml

PROP = "C05"
LEVEL = "exploration"
TECHNIQUE = "runtime monitor on parse_header and OFXTree.parse over generated (fields x layout x body x charset) files; generator truth cross-checked by independent header and body readers"
RULE = ("v1: VERSION x SECURITY x ENCODINGxCHARSET x COMPRESSION present/absent x UIDs x separators {CRLF, LF, CR, none, blank} x 0-2 blanks "
        "after the colon x 0-3 leading blank lines x gap between header and body {none, 1-3 separators, mixed}; v2: quote style per declaration and per attribute of the OFX declaration "
        "x line breaks {none, LF, CRLF} after each declaration x versions; bodies: rendered random trees whose text contains characters "
        "that differ between cp1252 / latin-1 / UTF-8 where the header names a character set. Thorough enumerates the full layout product. "
        "15% of the files are handed over right after a broken file (truncated inside a multi-byte character, bad header, empty) whose own outcome is not judged. A case = the file bytes; non-trivial = every case (header+body parsed and compared)")
RULE += ' Added later: per header kind, seven files with the SAME header text and another number of blank lines in front, read in succession; UUID-like and number-like file UIDs.'
ASSUMPTIONS = ["ref_header.py and ref_sgml.py are correct (self-tested)",
               "UNSPECIFIED, not judged: whitespace before the first '<' / after the last '>' of the returned body (compared after strip()); "
               "non-ASCII bytes under contradictory ENCODING/CHARSET pairs (only ASCII bodies there); bytes undefined in cp1252; blanks before <?xml"]
LEVEL_TEXT = ("Exploration over the layout product: the header scanner's behaviour depends only on separator kind, gap, leading blank lines, "
              "blanks after the colon and whether body bytes share a line with header text; the product of those dimensions is enumerated "
              "(fully in thorough) with charset-sensitive bodies, and each result is compared with two independent readers.")
LEVEL_NOTE = "Trusts ref_header.py / ref_sgml.py. Files are built from bytes the generator controls; real FI quirks outside the listed layouts are out of scope."
DESIGN_REF = "DESIGN.md §3 C05"
EXHAUSTIVE = {"thorough": "full v1 layout product (5 separators x 3 colon-blank x 4 leading-blank x 6 gaps x compression x 9 encoding pairs) and v2 product (2 x 32 per-attribute quote styles x 3x3 breaks x 7 versions)"}
MIN_COUNTERS = {"quick": {"big_bodies": 32, "mojibake_bodies": 60, "v1_files": 2000, "v2_files": 900, "after_broken_file": 300, "nonascii_bodies": 800, "tree_checked": 2500},
                "thorough": {"big_bodies": 120, "mojibake_bodies": 1000, "v1_files": 35000, "v2_files": 10000, "after_broken_file": 4000, "nonascii_bodies": 10000, "tree_checked": 35000}}

SEPS = {"crlf": "\r\n", "lf": "\n", "cr": "\r", "none": "", "blank": " "}
CODECS = {"ISO-8859-1": "latin_1", "1252": "cp1252", "NONE": "utf_8"}
# utf_8: also text that is NOT in Unicode normal form C (decomposed accent, Angstrom / Ohm / Kelvin signs, conjoining jamo, a
# compatibility ideograph, a musical symbol that NFC decomposes): "exactly the body text" means no normalisation either
# latin_1 incl. C1 controls: the code points where latin-1 and cp1252 disagree
SPECIALS = {"latin_1": "éÿ¡©ü\x80\x91\x9f", "cp1252": "€’…œé", "utf_8": ["€", "é", "汉", "😀", "’", "ÿ", "e\u0301", "\u212b", "\u2126", "\u212a", "\u1100\u1161", "\uf900", "\U0001d15e", "a\u0323\u0307"]}
UIDCHARS = "ABCXYZabcxyz0189_-"
KEYWORD_UIDS = ["NEWFILEUID", "OLDFILEUID", "xNEWFILEUIDx", "OFXHEADER", "VERSION", "CHARSET", "ENCODING", "OFX", "xml", "100",
                # identifiers that other software would "normalise": UUIDs in upper case, without or with misplaced hyphens; numbers
                "9F3C2B1A-0D4E-4F5A-8B6C-7D8E9F0A1B2C", "9F3C2B1A0D4E4F5A8B6C7D8E9F0A1B2C", "FEDCBA98-76543210-FEDCBA98-76543210", "0007", "1e3", "none", "None", "TRUE"]


def shards(tier):
    return 16


def timeout(tier):
    return 900 if tier == "quick" else 5400


MOJIBAKE = ["CafÃ©", "â‚¬5", "Ã¼ber", "naÃ¯ve", "Â©", "Ã±"]  # cp1252/latin-1 texts whose bytes happen to be well-formed UTF-8


def big_body(rng, codec, align):
    """> 64 KiB of multi-byte characters placed so that one straddles every 65536-byte boundary at some alignment."""
    ch = {"utf_8": rng.choice(["é", "汉", "😀"]), "latin_1": "é", "cp1252": "€"}[codec]
    unit = f"<MEMO>{ch * 40}</MEMO>"
    n = 140000 // len(unit.encode(codec)) + 1
    tree = ("OFX", [("NAME", "x" * align)] + [("MEMO", ch * 40)] * n) if align else ("OFX", [("MEMO", ch * 40)] * n)
    text = "<OFX>" + (f"<NAME>{'x' * align}</NAME>" if align else "") + unit * n + "</OFX>"
    return tree, text


def body_for(rng, codec, ascii_only, mojibake=False):
    if mojibake:
        # the ONLY non-ASCII content is mojibake-looking: decoding it as UTF-8 would 'succeed' - and be wrong
        tree = ("OFX", [("NAME", rng.choice(MOJIBAKE) + " " + rng.choice(MOJIBAKE)), ("MEMO", rng.choice(MOJIBAKE))])
        return tree, render.random_rendering(tree, rng).strip()

    def datagen(r):
        base = "".join(r.choice("abcXYZ019 -_.;:/%&") for _ in range(r.randint(1, 8))).strip() or "x"
        base = base.replace("&", "&amp;")
        if not ascii_only and r.random() < 0.7:
            sp = SPECIALS[codec]
            k = r.randint(0, len(base))
            base = base[:k] + r.choice(sp) + base[k:] + (r.choice(sp) if r.random() < 0.3 else "")
        return base.strip() or "x"

    tree = render.random_tree(rng, maxnodes=rng.choice([3, 8, 20]), maxdepth=4, tags=["OFX", "STMTRS", "A", "B1", "NAME", "MEMO", "X.Y"], datagen=datagen)
    text = render.random_rendering(tree, rng).strip()
    # exactly "first '<' to last '>'": make sure the text ends with '>' (root is an aggregate, so it does)
    assert text.startswith("<") and text.endswith(">"), text
    return tree, text


def v1_file(F, sep, colon_blanks, lead, gap, with_compression, body, codec, trail):
    names = ["OFXHEADER", "DATA", "VERSION", "SECURITY", "ENCODING", "CHARSET", "COMPRESSION", "OLDFILEUID", "NEWFILEUID"]
    if not with_compression:
        names.remove("COMPRESSION")
    hdr = sep.join(f"{n}:{' ' * colon_blanks}{F[n]}" for n in names)
    return (lead + hdr + gap).encode("ascii") + body.encode(codec) + trail.encode("ascii")


def v2_file(F, q1, q2, br1, br2, lead, body, trail):
    xml = f"<?xml version={q1}1.0{q1} encoding={q1}UTF-8{q1} standalone={q1}no{q1}?>"
    q2 = q2 * 5 if len(q2) == 1 else q2  # one quote style for the declaration, or one per attribute
    ofx = "<?OFX " + " ".join(f"{n}={q}{F[n]}{q}" for n, q in zip(["OFXHEADER", "VERSION", "SECURITY", "OLDFILEUID", "NEWFILEUID"], q2)) + "?>"
    return (lead + xml + br1 + ofx + br2).encode("ascii") + body.encode("utf_8") + trail.encode("ascii")


POISON = [
    # cut inside a multi-byte character (a decoder that keeps state would carry the dangling bytes over)
    b"OFXHEADER:100\r\nDATA:OFXSGML\r\nVERSION:160\r\nSECURITY:NONE\r\nENCODING:UNICODE\r\nCHARSET:NONE\r\nCOMPRESSION:NONE\r\nOLDFILEUID:NONE\r\nNEWFILEUID:NONE\r\n\r\n<OFX><MEMO>caf\xc3",
    b"<?xml version=\"1.0\" encoding=\"UTF-8\"?>\n<?OFX OFXHEADER=\"200\" VERSION=\"220\" SECURITY=\"NONE\" OLDFILEUID=\"NONE\" NEWFILEUID=\"NONE\"?>\n<OFX><MEMO>\xe6\xb1",
    b"<?xml version=\"1.0\"?><?OFX OFXHEADER=\"200\" VERSION=\"220\" SECURITY=\"NONE\" OLDFILEUID=\"NONE\" NEWFILEUID=\"NONE\"?><OFX>\xf0\x9f\x98",
    b"OFXHEADER:100\r\nDATA:OFXSGML\r\nVERSION:1x2\r\n",
    b"OFXHEADER:100\nDATA:OFXSGML\nVERSION:102\nSECURITY:NONE\nENCODING:USASCII\nCHARSET:BOGUS\nCOMPRESSION:NONE\nOLDFILEUID:NONE\nNEWFILEUID:NONE\n<OFX>",
    # ENCODING and CHARSET contradict each other (what this decodes to is UNSPECIFIED - what follows it is not)
    b"OFXHEADER:100\r\nDATA:OFXSGML\r\nVERSION:102\r\nSECURITY:NONE\r\nENCODING:UNICODE\r\nCHARSET:1252\r\nCOMPRESSION:NONE\r\nOLDFILEUID:NONE\r\nNEWFILEUID:NONE\r\n\r\n<OFX><MEMO>caf\xe9</MEMO></OFX>",
    b"OFXHEADER:100\r\nDATA:OFXSGML\r\nVERSION:102\r\nSECURITY:NONE\r\nENCODING:UNICODE\r\nCHARSET:ISO-8859-1\r\nCOMPRESSION:NONE\r\nOLDFILEUID:NONE\r\nNEWFILEUID:NONE\r\n\r\n<OFX><MEMO>caf\xc3\xa9</MEMO></OFX>",
    b"", b"\n\n\n\n\n\n\n\n\n\n", b"<?xml version='1.0'?><OFX></OFX>", b"\xff\xfe<\x00O\x00F\x00X\x00>\x00",
]


def poison(ctx, idx):
    """A broken file handed to the same functions first; its outcome is not judged - only that it leaves nothing behind."""
    from ofxtools.header import parse_header
    from ofxtools.Parser import OFXTree

    bad = POISON[idx]
    for fn in (lambda: parse_header(io.BytesIO(bad)), lambda: OFXTree().parse(io.BytesIO(bad))):
        try:
            fn()
        except Exception:  # noqa
            pass
    ctx.count("after_broken_file")


def check(ctx, data, kind, F, body, tree, feat):
    from ofxtools.header import parse_header
    from ofxtools.Parser import OFXTree

    if ctx.replay_case:
        if feat.get("after_broken_file") is not None:
            poison(ctx, feat["after_broken_file"])
        for prev in feat.get("after_files_latin1", []):
            try:
                parse_header(io.BytesIO(prev.encode("latin_1")))  # the files read right before (same header, other layout in front)
            except Exception:  # noqa
                pass
    elif ctx.rng.random() < 0.15:
        feat = dict(feat, after_broken_file=ctx.rng.randrange(len(POISON)))
        poison(ctx, feat["after_broken_file"])
    ctx.ev()
    ctx.count(f"{kind}_files")
    case = {"file_latin1": data.decode("latin_1"), "kind": kind, "fields": F, "body": body, "feat": feat}
    nonascii = any(ord(c) > 127 for c in body)
    if nonascii:
        ctx.count("nonascii_bodies")
    # the independent reader must agree with the generator, else the harness is wrong
    try:
        rk, rf, rbody = ref_header.body_text(data)
    except Exception as e:
        ctx.inconclusive_because(f"ref_header cannot read a generated file ({feat}): {e!r}")
        return
    if rk != kind or rbody.strip() != body or any(rf.get(k) != str(v) for k, v in F.items() if k in rf or k != "COMPRESSION"):
        ctx.inconclusive_because(f"ref_header disagrees with generator ({feat}): {rf} {rbody[:40]!r}")
        return
    tag = f"{kind}/{feat['sep']}/gap={feat['gapclass']}/nonascii={int(nonascii)}" if kind == "v1" else f"v2/q={feat['q'] if len(feat['q']) == 2 else feat['q'][0] + ('m' if len(set(feat['q'][1:])) > 1 else feat['q'][1])}/br={feat['br']}/nonascii={int(nonascii)}"
    try:
        h, got = parse_header(io.BytesIO(data))
    except Exception as e:
        ctx.violation(f"{tag}/raises-{type(e).__name__}", f"parse_header raised {e!r} on {data[:200]!r}", case)
        return
    want = {"version": int(F["VERSION"]), "security": F["SECURITY"], "oldfileuid": F["OLDFILEUID"], "newfileuid": F["NEWFILEUID"],
            "ofxheader": int(F["OFXHEADER"])}
    if kind == "v1":
        want.update(data=F["DATA"], encoding=F["ENCODING"], charset=F["CHARSET"], compression=F.get("COMPRESSION", "NONE"))
    gotf = {k: getattr(h, k, None) for k in want}
    if gotf != want:
        ctx.violation(f"{tag}/fields-differ", f"header fields {gotf} != file's {want}", case)
        return
    if not isinstance(got, str) or got.strip() != body:
        ctx.violation(f"{tag}/body-differs", f"body {got[:80]!r}... != {body[:80]!r}... (len {len(got.strip())} vs {len(body)})", case)
        return
    ctx.count("tree_checked")
    try:
        t = OFXTree()
        if ctx.evaluations % 7 == 0:
            # the same bytes through a real file opened by name (OFXTree.parse accepts a path)
            path = os.path.join(ctx.scratch, "c05-input.ofx")
            with open(path, "wb") as f:
                f.write(data)
            root = t.parse(path)
            ctx.count("parsed_by_filename")
        elif ctx.evaluations % 7 == 3:
            # ... and through an open binary file object with a tiny buffer (reads arrive in small pieces)
            path = os.path.join(ctx.scratch, "c05-input2.ofx")
            with open(path, "wb") as f:
                f.write(data)
            with open(path, "rb", buffering=16) as f:
                root = t.parse(f)
                if f.closed:
                    ctx.violation("source/callers-file-closed-by-parse", "OFXTree.parse closed a file object the caller had opened", case)
            ctx.count("parsed_from_open_file_object")
        else:
            root = t.parse(io.BytesIO(data))
        if ref_sgml.from_etree(root) != tree:
            ctx.violation(f"{tag}/tree-differs", f"OFXTree.parse tree differs for body {body[:100]!r}", case)
    except Exception as e:
        ctx.violation(f"{tag}/tree-raises-{type(e).__name__}", f"OFXTree.parse raised {e!r}", case)


def v1_layouts():
    seps = list(SEPS)
    gaps = ["", "S", "SS", "SSS", "mixed", "nl", "S" * 300, "S" * 1500]  # 'any number of blank lines' is also a great many
    return list(itertools.product(seps, [0, 1, 2, 300], [0, 1, 2, 3], gaps, [True, False]))


ENC_PAIRS = [(e, c) for e in ("USASCII", "UNICODE", "UTF-8") for c in ("ISO-8859-1", "1252", "NONE")]


def nonascii_allowed(enc, cs):
    return (cs in ("ISO-8859-1", "1252") and enc == "USASCII") or (cs == "NONE" and enc in ("UNICODE", "UTF-8"))


def gap_text(g, sep):
    s = sep if sep.strip() == "" and sep != "" else "\n" if sep == "" else sep
    if g == "mixed":
        return "\r\n \n"
    if g == "nl":
        return "\n"
    return s * len(g)


def run_shard(ctx):
    for st in (ref_header.selftest, ref_sgml.selftest):
        try:
            st()
        except AssertionError as e:
            ctx.inconclusive_because(f"reference self-test failed: {e}")
            return
    rng = ctx.rng
    thorough = ctx.tier == "thorough"
    layouts = v1_layouts()
    if not thorough:
        rng2 = __import__("random").Random(f"C05-layouts/{ctx.seed}")
        # covering sample: every value of every dimension several times, plus random combinations
        sample = rng2.sample(layouts, 600)
        for sep in SEPS:
            for g in ["", "S", "mixed", "nl", "S" * 300, "S" * 1500]:
                sample.append((sep, rng2.choice([0, 1, 2, 300]), rng2.choice([0, 1, 2, 3]), g, rng2.random() < 0.7))
        layouts = sample
    k = 0
    for li, (sepn, cb, leadn, g, comp) in enumerate(layouts):
        if li % ctx.nshards != ctx.shard:
            continue
        sep = SEPS[sepn]
        for enc, cs in (ENC_PAIRS * 6 if thorough else rng.sample(ENC_PAIRS, 5)):
            codec = CODECS[cs]
            ascii_only = not nonascii_allowed(enc, cs) or rng.random() < 0.15
            moji = (not ascii_only) and cs in ("ISO-8859-1", "1252") and rng.random() < 0.25
            tree, body = body_for(rng, codec, ascii_only, mojibake=moji)
            if moji:
                try:
                    body.encode(codec)
                    ctx.count("mojibake_bodies")
                except UnicodeEncodeError:
                    tree, body = body_for(rng, codec, ascii_only)
            F = {"OFXHEADER": "100", "DATA": "OFXSGML", "VERSION": str(rng.choice([102, 103, 151, 160])), "SECURITY": rng.choice(["NONE", "TYPE1"]),
                 "ENCODING": enc, "CHARSET": cs, "OLDFILEUID": rng.choice(["NONE", "".join(rng.choice(UIDCHARS) for _ in range(rng.randint(1, 36))), rng.choice(KEYWORD_UIDS)]),
                 "NEWFILEUID": rng.choice(["NONE", "".join(rng.choice(UIDCHARS) for _ in range(rng.randint(1, 36))), rng.choice(KEYWORD_UIDS)])}
            if comp:
                F["COMPRESSION"] = "NONE"
            lead = ("\r\n" if sepn == "crlf" else "\r" if sepn == "cr" else "\n") * leadn
            gap = gap_text(g, sep)
            trail = rng.choice(["", "\n", "\r\n", "  "])
            data = v1_file(F, sep, cb, lead, gap, comp, body, codec, trail)
            feat = {"sep": sepn, "colon_blanks": cb, "lead": leadn, "gap": g, "gapclass": "glued" if gap == "" else "ws", "compression": comp, "enc": enc, "cs": cs}
            check(ctx, data, "v1", F, body, tree, feat)
            ctx.distinct(data)
            k += 1
            if k % 150 == 1:
                ctx.sample({"file": data[:260].decode("latin_1"), "layout": feat})
    # bodies larger than 64 KiB with a multi-byte character across every block boundary (both header kinds)
    if ctx.shard < (4 if not thorough else 16):
        for align in range(0, 4):
            for kind, codec, cs, enc in (("v2", "utf_8", None, None), ("v1", "utf_8", "NONE", "UNICODE"), ("v1", "cp1252", "1252", "USASCII")):
                tree, body = big_body(rng, codec, align + ctx.shard * 4)
                if kind == "v2":
                    F = {"OFXHEADER": "200", "VERSION": "220", "SECURITY": "NONE", "OLDFILEUID": "NONE", "NEWFILEUID": "NONE"}
                    data = v2_file(F, '"', '"', "\r\n", "\r\n", "", body, "")
                    feat = {"q": "dd", "br": "22", "lead": 0, "big": True}
                else:
                    F = {"OFXHEADER": "100", "DATA": "OFXSGML", "VERSION": "160", "SECURITY": "NONE", "ENCODING": enc, "CHARSET": cs, "COMPRESSION": "NONE",
                         "OLDFILEUID": "NONE", "NEWFILEUID": "NONE"}
                    data = v1_file(F, "\r\n", 0, "", "\r\n\r\n", True, body, codec, "")
                    feat = {"sep": "crlf", "gapclass": "ws", "big": True, "enc": enc, "cs": cs}
                check(ctx, data, kind, F, body, tree, feat)
                ctx.count("big_bodies")
                ctx.distinct(("big", kind, codec, align, ctx.shard))
    # v2
    brs = ["", "\n", "\r\n", "\n" * 1500]
    mixes = ["".join(m) for m in itertools.product("\"'", repeat=5)]  # quote style per attribute: 2 uniform + 30 mixed
    v2l = list(itertools.product(['"', "'"], mixes if thorough else ['"', "'"] + rng.sample(mixes[1:-1], 6), brs, brs, [200, 201, 202, 203, 210, 211, 220]))
    reps = 1 if not thorough else 3
    for li, (q1, q2, b1, b2, ver) in enumerate(v2l):
        if li % ctx.nshards != ctx.shard:
            continue
        for r in range(reps):
            tree, body = body_for(rng, "utf_8", ascii_only=rng.random() < 0.15)
            F = {"OFXHEADER": "200", "VERSION": str(ver), "SECURITY": rng.choice(["NONE", "TYPE1"]),
                 "OLDFILEUID": rng.choice(["NONE", "".join(rng.choice(UIDCHARS) for _ in range(rng.randint(1, 36))), rng.choice(KEYWORD_UIDS)]),
                 "NEWFILEUID": rng.choice(["NONE", "".join(rng.choice(UIDCHARS) for _ in range(rng.randint(1, 36))), rng.choice(KEYWORD_UIDS)])}
            lead = rng.choice(["", "", "\n", "\r\n\r\n"])
            data = v2_file(F, q1, q2, b1, b2, lead, body, rng.choice(["", "\n"]))
            feat = {"q": ("d" if q1 == '"' else "s") + "".join("d" if q == '"' else "s" for q in q2), "br": f"{len(b1)}{len(b2)}", "lead": len(lead)}
            check(ctx, data, "v2", F, body, tree, feat)
            ctx.distinct(data)
        if li % 40 == 0:
            ctx.sample({"file": data[:260].decode("latin_1"), "layout": feat})
    same_header_other_lead(ctx, rng)


def same_header_other_lead(ctx, rng):
    """Files that carry the SAME header text and differ only in what stands in front of it (nothing, blank lines of either kind),
    read one after the other in one process: each body is that file's own - nothing remembered from the previous file's layout."""
    for kind in ("v1-crlf", "v1-cr", "v1-lf", "v2"):
        tree, body = body_for(rng, "utf_8", ascii_only=False)
        uid = "".join(rng.choice(UIDCHARS) for _ in range(12))
        before = []
        if kind == "v2":
            leads = ["", "\r\n\r\n", "\n", "\r\n", "\n\n\n", ""]
        else:  # blank lines in the file's own line-break convention (as the layouts above)
            nl = SEPS[kind.split("-")[1]]
            leads = ["", nl, nl * 2, nl * 3, nl, ""]
        rng.shuffle(leads)
        for lead in leads:
            if kind == "v2":
                F = {"OFXHEADER": "200", "VERSION": "220", "SECURITY": "NONE", "OLDFILEUID": "NONE", "NEWFILEUID": uid}
                data = v2_file(F, '"', '"', "\r\n", "\r\n", lead, body, "")
                feat = {"q": "dd", "br": "22", "lead": len(lead), "same_header": True}
                k = "v2"
            else:
                sepn = kind.split("-")[1]
                F = {"OFXHEADER": "100", "DATA": "OFXSGML", "VERSION": "160", "SECURITY": "NONE", "ENCODING": "UNICODE", "CHARSET": "NONE", "COMPRESSION": "NONE",
                     "OLDFILEUID": "NONE", "NEWFILEUID": uid}
                data = v1_file(F, SEPS[sepn], 0, lead, SEPS[sepn] * 2, True, body, "utf_8", "")
                feat = {"sep": sepn, "gapclass": "ws", "lead": len(lead), "enc": "UNICODE", "cs": "NONE", "same_header": True}
                k = "v1"
            feat["after_files_latin1"] = list(before)
            ctx.count("same_header_other_lead_files")
            check(ctx, data, k, F, body, tree, feat)
            before.append(data.decode("latin_1"))


def replay(ctx, case):
    ref_header.selftest()
    ref_sgml.selftest()
    data = case["file_latin1"].encode("latin_1")
    tree = ref_sgml.parse(case["body"])
    check(ctx, data, case["kind"], case["fields"], case["body"], tree, case["feat"])
